//! C03 — blob stores return exactly what was stored, under stable ids.
//!
//! E1: every mutable store is stepped in lock-step with `BTreeMap<id, bytes>` + the list of issued ids;
//!     after every step every read-only query (get / contains / size / len / is_empty / get_batch / iter_ids,
//!     and get_by_key / contains_key / get_by_prefix where offered) is compared with the model on every id
//!     `0..=max_issued+1` and `u32::MAX`.
//! E2: the bulk builders are run on every record list of the stated space; record i must equal input i, ids
//!     `>= n` must be absent; `load(save(s))` must answer like `s`.
//!
//! Coverage audit: `register_e1_audit` (inherent mutators as `Op::Extra`, wrapper stacks, non-empty start states,
//!     special keys, never-instantiated presets), `register_builder_histories` (E1 over the calls of the incremental
//!     builders), appended E2 pattern kinds / variants (`AUDIT_PATTERN_KINDS`, `zo_config`).
//!
//! Conditions carried from the statement: `put`/`put_batch`/`remove` returning `Err` = refused, the model is
//! unchanged (stores that do not support removal / some record shapes are not penalised); operations a store
//! does not offer are skipped; an id may be handed out again once its previous holder is no longer live.

use std::collections::hash_map::DefaultHasher;
use std::collections::BTreeMap;
use std::fmt;
use std::hash::Hash;
use std::path::{Path, PathBuf};

use serde::{Deserialize, Serialize};
use zverif::enumr::{self, Enum, EnumSpec};
use zverif::seq::{Seq, SeqSpec};
use zverif::util::{brief, h64};
use zverif::{Fail, Outcome, Tier};

use zipora::blob_store::cached_store::CacheWriteStrategy;
use zipora::blob_store::{
    BatchBlobStore, BatchZipOffsetBlobStoreBuilder, BlobStore, CachedBlobStore, DictZipBlobStore, DictZipBlobStoreBuilder, DictZipConfig,
    DictionaryBlobStore, HuffmanBlobStore, IterableBlobStore, MemoryBlobStore, MixedLenBlobStore, NestLoudsTrieBlobStore,
    NestLoudsTrieBlobStoreBuilder, PlainBlobStore, RansBlobStore, SimpleZipBlobStore, SimpleZipConfig, SortedUintVecConfig,
    TrieBlobStoreConfig, ZeroLengthBlobStore, ZipOffsetBlobStore, ZipOffsetBlobStoreBuilder, ZipOffsetBlobStoreConfig, ZstdBlobStore,
};
use zipora::cache::PageCacheConfig;
use zipora::compression::dict_zip::blob_store::EntropyAlgorithm as DzEntropy;
use zipora::RankSelectInterleaved256;

type Trie = NestLoudsTrieBlobStore<RankSelectInterleaved256>;

// ---------------------------------------------------------------------------------------------
// records

/// Index into the record table R of DESIGN §7 C03.
#[derive(Clone, Copy, PartialEq, Eq, Hash, Serialize, Deserialize)]
pub struct Rec(pub u8);

const REC_NAMES: [&str; 7] = ["e", "a", "ab", "zz", "a64", "c300", "p4000"];
/// records used by the bulk small scope and the training corpus (R of DESIGN §7 C03)
const NR: u8 = 6;
const E: Rec = Rec(0);
const A: Rec = Rec(1);
const AB: Rec = Rec(2);
const ZZ: Rec = Rec(3);
const A64: Rec = Rec(4);
const C300: Rec = Rec(5);
/// 4000 bytes: two of them straddle a 4096-byte cache page (cached store only)
const P4000: Rec = Rec(6);

impl Rec {
    fn bytes(self) -> Vec<u8> {
        match self.0 {
            0 => Vec::new(),
            1 => b"a".to_vec(),
            2 => b"ab".to_vec(),
            3 => b"zz".to_vec(),
            4 => vec![b'a'; 64],
            5 => (0..300u32).map(|i| (i % 256) as u8).collect(),
            _ => (0..4000u32).map(|i| (i % 251) as u8).collect(),
        }
    }
}
impl fmt::Debug for Rec {
    fn fmt(&self, f: &mut fmt::Formatter<'_>) -> fmt::Result {
        f.write_str(REC_NAMES[self.0 as usize % REC_NAMES.len()])
    }
}

/// Training corpus for the trainable wrappers: every record of R twice (covers all 256 byte values).
fn training() -> Vec<u8> {
    let mut v = Vec::new();
    for _ in 0..2 {
        for r in 0..NR {
            v.extend_from_slice(&Rec(r).bytes());
        }
    }
    v
}

// ---------------------------------------------------------------------------------------------
// adapter

type R<T> = Result<T, String>;

/// Everything a store can say.  `None` = the store does not offer the operation.
pub trait StoreLike {
    fn get(&mut self, id: u32) -> R<Vec<u8>>;
    fn put(&mut self, d: &[u8]) -> R<u32>;
    fn remove(&mut self, id: u32) -> R<()>;
    fn contains(&mut self, id: u32) -> bool;
    fn size(&mut self, id: u32) -> R<Option<usize>>;
    fn len(&mut self) -> usize;
    fn is_empty(&mut self) -> bool;
    fn put_batch(&mut self, _v: Vec<Vec<u8>>) -> Option<R<Vec<u32>>> {
        None
    }
    fn get_batch(&mut self, _ids: &[u32]) -> Option<R<Vec<Option<Vec<u8>>>>> {
        None
    }
    fn remove_batch(&mut self, _ids: &[u32]) -> Option<R<usize>> {
        None
    }
    fn iter_ids(&mut self) -> Option<Vec<u32>> {
        None
    }
    fn put_with_key(&mut self, _k: &[u8], _d: &[u8]) -> Option<R<u32>> {
        None
    }
    fn get_by_key(&mut self, _k: &[u8]) -> Option<R<Vec<u8>>> {
        None
    }
    fn contains_key(&mut self, _k: &[u8]) -> Option<bool> {
        None
    }
    fn get_by_prefix(&mut self, _p: &[u8]) -> Option<R<Vec<(Vec<u8>, Vec<u8>)>>> {
        None
    }
    /// save → load (serialise and deserialise, or reopen the directory); `None` = not offered
    fn reopen(self: Box<Self>, _dir: &Path) -> Option<R<Box<dyn StoreLike>>> {
        None
    }
    /// `IterableBlobStore::iter_blobs` (or the store's own equivalent); `None` = not offered
    fn iter_blobs(&mut self) -> Option<R<Vec<(u32, Vec<u8>)>>> {
        None
    }
    /// a mutator outside the BlobStore traits, by name (`Op::Extra`); `None` = this store does not offer it
    fn extra(&mut self, _name: &str) -> Option<R<Effect>> {
        None
    }
    /// `Clone`, where offered: the history continues on the clone and the original is dropped
    fn clone_box(&mut self) -> Option<Box<dyn StoreLike>> {
        None
    }
}

/// what a named extra mutator does to the set of live records
#[derive(Clone, Copy, PartialEq, Eq, Debug)]
pub enum Effect {
    Unchanged,
    /// every record is gone (MemoryBlobStore::clear)
    Cleared,
}

macro_rules! core_methods {
    () => {
        fn get(&mut self, id: u32) -> R<Vec<u8>> {
            BlobStore::get(&*self, id).map_err(|e| e.to_string())
        }
        fn put(&mut self, d: &[u8]) -> R<u32> {
            BlobStore::put(self, d).map_err(|e| e.to_string())
        }
        fn remove(&mut self, id: u32) -> R<()> {
            BlobStore::remove(self, id).map_err(|e| e.to_string())
        }
        fn contains(&mut self, id: u32) -> bool {
            BlobStore::contains(&*self, id)
        }
        fn size(&mut self, id: u32) -> R<Option<usize>> {
            BlobStore::size(&*self, id).map_err(|e| e.to_string())
        }
        fn len(&mut self) -> usize {
            BlobStore::len(&*self)
        }
        fn is_empty(&mut self) -> bool {
            BlobStore::is_empty(&*self)
        }
    };
}
macro_rules! batch_methods {
    () => {
        fn put_batch(&mut self, v: Vec<Vec<u8>>) -> Option<R<Vec<u32>>> {
            Some(BatchBlobStore::put_batch(self, v).map_err(|e| e.to_string()))
        }
        fn get_batch(&mut self, ids: &[u32]) -> Option<R<Vec<Option<Vec<u8>>>>> {
            Some(BatchBlobStore::get_batch(&*self, ids.to_vec()).map_err(|e| e.to_string()))
        }
        fn remove_batch(&mut self, ids: &[u32]) -> Option<R<usize>> {
            Some(BatchBlobStore::remove_batch(self, ids.to_vec()).map_err(|e| e.to_string()))
        }
    };
}
macro_rules! iter_methods {
    () => {
        fn iter_ids(&mut self) -> Option<Vec<u32>> {
            Some(IterableBlobStore::iter_ids(&*self).collect())
        }
        fn iter_blobs(&mut self) -> Option<R<Vec<(u32, Vec<u8>)>>> {
            Some(IterableBlobStore::iter_blobs(&*self).collect::<Result<Vec<_>, _>>().map_err(|e| e.to_string()))
        }
    };
}
macro_rules! serde_reopen {
    ($ty:ty) => {
        fn reopen(self: Box<Self>, _dir: &Path) -> Option<R<Box<dyn StoreLike>>> {
            let r = (|| -> R<Box<dyn StoreLike>> {
                let bytes = serde_json::to_vec(&*self).map_err(|e| format!("serialize: {e}"))?;
                let s: $ty = serde_json::from_slice(&bytes).map_err(|e| format!("deserialize: {e}"))?;
                Ok(Box::new(s))
            })();
            Some(r)
        }
    };
}

impl StoreLike for MemoryBlobStore {
    core_methods!();
    batch_methods!();
    iter_methods!();
    serde_reopen!(MemoryBlobStore);
    fn extra(&mut self, name: &str) -> Option<R<Effect>> {
        match name {
            "Clear" => {
                self.clear();
                Some(Ok(Effect::Cleared))
            }
            "ShrinkToFit" => {
                self.reserve(64);
                self.shrink_to_fit();
                Some(Ok(Effect::Unchanged))
            }
            "Flush" => Some(BlobStore::flush(self).map(|_| Effect::Unchanged).map_err(|e| e.to_string())),
            _ => None,
        }
    }
    fn clone_box(&mut self) -> Option<Box<dyn StoreLike>> {
        Some(Box::new(self.clone()))
    }
}
impl StoreLike for PlainBlobStore {
    core_methods!();
    batch_methods!();
    iter_methods!();
    fn reopen(self: Box<Self>, _dir: &Path) -> Option<R<Box<dyn StoreLike>>> {
        let dir: PathBuf = self.base_dir().to_path_buf();
        drop(self);
        Some(PlainBlobStore::new(&dir).map(|s| Box::new(s) as Box<dyn StoreLike>).map_err(|e| e.to_string()))
    }
}
impl StoreLike for ZstdBlobStore<MemoryBlobStore> {
    core_methods!();
    batch_methods!();
    iter_methods!();
    serde_reopen!(ZstdBlobStore<MemoryBlobStore>);
}
impl StoreLike for ZeroLengthBlobStore {
    core_methods!();
    batch_methods!();
    iter_methods!();
    serde_reopen!(ZeroLengthBlobStore);
}
/// second training corpus of the `Retrain` op: other symbol frequencies than every first corpus (other codes)
const RETRAIN_CORPUS: &[u8] = b"zzzzzzzzzzzzzzzzzzzzzzzzbbbbbbbba";
impl StoreLike for HuffmanBlobStore<MemoryBlobStore> {
    core_methods!();
    fn extra(&mut self, name: &str) -> Option<R<Effect>> {
        match name {
            // add training data and rebuild the tree: records already stored must keep decoding
            "Retrain" => {
                self.add_training_data(RETRAIN_CORPUS);
                Some(self.build_tree().map(|_| Effect::Unchanged).map_err(|e| e.to_string()))
            }
            _ => None,
        }
    }
}
impl StoreLike for HuffmanBlobStore<ZstdBlobStore<MemoryBlobStore>> {
    core_methods!();
    fn extra(&mut self, name: &str) -> Option<R<Effect>> {
        match name {
            "Retrain" => {
                self.add_training_data(RETRAIN_CORPUS);
                Some(self.build_tree().map(|_| Effect::Unchanged).map_err(|e| e.to_string()))
            }
            _ => None,
        }
    }
}
impl StoreLike for ZstdBlobStore<HuffmanBlobStore<MemoryBlobStore>> {
    core_methods!();
}
impl StoreLike for ZstdBlobStore<ZstdBlobStore<MemoryBlobStore>> {
    core_methods!();
    batch_methods!();
    iter_methods!();
    serde_reopen!(ZstdBlobStore<ZstdBlobStore<MemoryBlobStore>>);
}
impl StoreLike for ZstdBlobStore<PlainBlobStore> {
    core_methods!();
    batch_methods!();
    iter_methods!();
    fn reopen(self: Box<Self>, _dir: &Path) -> Option<R<Box<dyn StoreLike>>> {
        let level = self.compression_level();
        let dir: PathBuf = self.inner().base_dir().to_path_buf();
        drop(self);
        Some(PlainBlobStore::new(&dir).map(|s| Box::new(ZstdBlobStore::new(s, level)) as Box<dyn StoreLike>).map_err(|e| e.to_string()))
    }
}
macro_rules! cached_extras {
    () => {
        fn extra(&mut self, name: &str) -> Option<R<Effect>> {
            match name {
                "DisableCache" => {
                    self.disable_cache();
                    Some(Ok(Effect::Unchanged))
                }
                "EnableCache" => {
                    self.enable_cache();
                    Some(Ok(Effect::Unchanged))
                }
                "SetWriteBack" => {
                    self.set_write_strategy(CacheWriteStrategy::WriteBack);
                    Some(Ok(Effect::Unchanged))
                }
                "SetWriteAround" => {
                    self.set_write_strategy(CacheWriteStrategy::WriteAround);
                    Some(Ok(Effect::Unchanged))
                }
                "FlushCache" => Some(CachedBlobStore::flush(&*self).map(|_| Effect::Unchanged).map_err(|e| e.to_string())),
                "Prefetch" => Some(self.prefetch_range(0, 8192).map(|_| Effect::Unchanged).map_err(|e| e.to_string())),
                _ => None,
            }
        }
    };
}
impl StoreLike for CachedBlobStore<ZstdBlobStore<MemoryBlobStore>> {
    core_methods!();
    cached_extras!();
}
impl StoreLike for RansBlobStore<MemoryBlobStore> {
    core_methods!();
}
impl StoreLike for DictionaryBlobStore<MemoryBlobStore> {
    core_methods!();
}
impl StoreLike for CachedBlobStore<MemoryBlobStore> {
    core_methods!();
    cached_extras!();
}
impl StoreLike for DictZipBlobStore {
    core_methods!();
    batch_methods!();
    fn iter_ids(&mut self) -> Option<Vec<u32>> {
        Some(self.iter_ids_vec())
    }
    fn iter_blobs(&mut self) -> Option<R<Vec<(u32, Vec<u8>)>>> {
        Some(self.iter_blobs_vec().map_err(|e| e.to_string()))
    }
    fn extra(&mut self, name: &str) -> Option<R<Effect>> {
        match name {
            // clears the decompression cache and validates: no record may change
            "Optimize" => Some(self.optimize().map(|_| Effect::Unchanged).map_err(|e| e.to_string())),
            // save_dictionary -> load_dictionary ("replaces current dictionary"): every record is dropped, because the
            // stored bytes are tied to the dictionary they were compressed with; no id may answer afterwards
            "ReloadDict" => {
                static N: std::sync::atomic::AtomicUsize = std::sync::atomic::AtomicUsize::new(0);
                let path = std::env::temp_dir().join(format!(
                    "zv-c03-dict-{}-{}",
                    std::process::id(),
                    N.fetch_add(1, std::sync::atomic::Ordering::Relaxed)
                ));
                let r = self.save_dictionary(&path).and_then(|_| self.load_dictionary(&path));
                let _ = std::fs::remove_file(&path);
                Some(r.map(|_| Effect::Cleared).map_err(|e| e.to_string()))
            }
            _ => None,
        }
    }
}
impl StoreLike for SimpleZipBlobStore {
    core_methods!();
    batch_methods!();
    iter_methods!();
}
impl StoreLike for MixedLenBlobStore {
    core_methods!();
    batch_methods!();
    iter_methods!();
}
impl StoreLike for ZipOffsetBlobStore {
    core_methods!();
}
impl StoreLike for Trie {
    core_methods!();
    batch_methods!();
    iter_methods!();
    fn put_with_key(&mut self, k: &[u8], d: &[u8]) -> Option<R<u32>> {
        Some(Trie::put_with_key(self, k, d).map_err(|e| e.to_string()))
    }
    fn get_by_key(&mut self, k: &[u8]) -> Option<R<Vec<u8>>> {
        Some(Trie::get_by_key(self, k).map_err(|e| e.to_string()))
    }
    fn contains_key(&mut self, k: &[u8]) -> Option<bool> {
        Some(Trie::contains_key(self, k))
    }
    fn get_by_prefix(&mut self, p: &[u8]) -> Option<R<Vec<(Vec<u8>, Vec<u8>)>>> {
        Some(Trie::get_by_prefix(self, p).map_err(|e| e.to_string()))
    }
    fn extra(&mut self, name: &str) -> Option<R<Effect>> {
        match name {
            // builder -> read-only store: later writes/removes are refused, every read must keep answering
            "Finalize" => Some(self.finalize().map(|_| Effect::Unchanged).map_err(|e| e.to_string())),
            "Flush" => Some(BlobStore::flush(self).map(|_| Effect::Unchanged).map_err(|e| e.to_string())),
            _ => None,
        }
    }
}

// ---------------------------------------------------------------------------------------------
// judging observations (shared by E1 and E2)

fn failc(clause: &str, class: &str, detail: String) -> Fail {
    Fail::new(clause, detail).with_class(class)
}

/// outcome class of a successful read that returned other bytes than were stored
fn bytes_class(_want: &[u8], _got: &[u8]) -> &'static str {
    "wrong_record"
}

/// Compare every read-only query on `probes` with `live` (the set of live records).
fn observe_store(store: &mut dyn StoreLike, live: &BTreeMap<u32, Vec<u8>>, probes: &[u32], pfx: &str) -> Result<(), Fail> {
    let c = |s: &str| format!("{pfx}{s}");
    for &id in probes {
        match live.get(&id) {
            Some(want) => {
                match store.get(id) {
                    Ok(got) => {
                        if &got != want {
                            return Err(failc(&c("get"), bytes_class(want, &got), format!("get({id}) = {}, stored {}", brief(&got), brief(want))));
                        }
                    }
                    Err(e) => return Err(failc(&c("get"), "err", format!("get({id}) = Err({e}) for a live record {}", brief(want)))),
                }
                if !store.contains(id) {
                    return Err(failc(&c("contains"), "false_for_live", format!("contains({id}) = false for a live record")));
                }
                match store.size(id) {
                    Ok(Some(n)) if n == want.len() => {}
                    other => {
                        let class = match &other {
                            Ok(Some(_)) => "wrong_size",
                            Ok(None) => "none_for_live",
                            Err(_) => "err",
                        };
                        return Err(failc(&c("size"), class, format!("size({id}) = {:?}, record has {} bytes", other, want.len())));
                    }
                }
            }
            None => {
                if let Ok(got) = store.get(id) {
                    return Err(failc(&c("get_absent"), "served", format!("get({id}) = Ok({}) but the id is removed / never issued", brief(&got))));
                }
                if store.contains(id) {
                    return Err(failc(&c("contains_absent"), "true_for_absent", format!("contains({id}) = true but the id is removed / never issued")));
                }
                if let Ok(Some(n)) = store.size(id) {
                    return Err(failc(&c("size_absent"), "some_for_absent", format!("size({id}) = Some({n}) but the id is removed / never issued")));
                }
            }
        }
    }
    let l = store.len();
    if l != live.len() {
        let class = if l < live.len() { "short" } else { "long" };
        return Err(failc(&c("len"), class, format!("len() = {l}, {} records are live", live.len())));
    }
    let ie = store.is_empty();
    if ie != live.is_empty() {
        return Err(failc(&c("len"), "is_empty", format!("is_empty() = {ie}, {} records are live", live.len())));
    }
    if let Some(r) = store.get_batch(probes) {
        match r {
            Ok(v) => {
                let want: Vec<Option<Vec<u8>>> = probes.iter().map(|id| live.get(id).cloned()).collect();
                if v != want {
                    let at = v.iter().zip(want.iter()).position(|(a, b)| a != b).unwrap_or(usize::MAX);
                    return Err(failc(
                        &c("get_batch"),
                        if v.len() != want.len() { "wrong_count" } else { "wrong_entry" },
                        format!("get_batch({:?}) differs from the live records at position {at}: {} entries returned", probes, v.len()),
                    ));
                }
            }
            Err(e) => return Err(failc(&c("get_batch"), "err", format!("get_batch({:?}) = Err({e})", probes))),
        }
    }
    if let Some(mut ids) = store.iter_ids() {
        ids.sort_unstable();
        let want: Vec<u32> = live.keys().copied().collect();
        if ids != want {
            return Err(failc(&c("iter_ids"), "set_differs", format!("iter_ids() = {:?}, live ids {:?}", ids, want)));
        }
    }
    // iter_blobs: every live record exactly once, with its bytes (only for stores with few records: it reads everything again)
    if live.len() <= 64 {
        if let Some(r) = store.iter_blobs() {
            match r {
                Ok(mut pairs) => {
                    pairs.sort();
                    let want: Vec<(u32, Vec<u8>)> = live.iter().map(|(k, v)| (*k, v.clone())).collect();
                    if pairs != want {
                        let class = if pairs.len() != want.len() { "wrong_count" } else { "wrong_entry" };
                        return Err(failc(&c("iter_blobs"), class, format!("iter_blobs() yields {} (id, record) pairs {:?}, live records {:?}", pairs.len(), pairs.iter().map(|(k, v)| (*k, brief(v))).collect::<Vec<_>>(), want.iter().map(|(k, v)| (*k, brief(v))).collect::<Vec<_>>())));
                    }
                }
                Err(e) => return Err(failc(&c("iter_blobs"), "err", format!("iter_blobs() = Err({e}) with {} live records", live.len()))),
            }
        }
    }
    Ok(())
}

// ---------------------------------------------------------------------------------------------
// E1

#[derive(Clone, PartialEq, Eq)]
pub enum Op {
    Put(Rec),
    PutBatch(Vec<Rec>),
    /// `PutKey(key index, record)` — `put_with_key`
    PutKey(u8, Rec),
    /// remove the j-th most recently issued id (0 = newest); may name an id that is already removed
    Remove(usize),
    /// `remove_batch` of the j-th and k-th most recently issued ids
    RemoveBatch(usize, usize),
    /// save → load (serde round trip / reopen the directory), then continue on the loaded store
    Reopen,
    /// a mutator outside the BlobStore traits, by name (see `StoreLike::extra`; "Clone" = continue on a clone)
    Extra(&'static str),
}

/// key table of `PutKey`; indices 0..3 are the original alphabet, the rest was appended by the coverage audit:
/// the empty key, two keys that share a prefix THROUGH a NUL byte, a key with 0xff, a long key (> 64 bytes:
/// longer than the Patricia max_path_length of every preset)
const KEYS: [&[u8]; 8] = [b"k", b"kx", b"m", b"", b"k\0", b"k\0x", b"k\xff", LONG_KEY];
const LONG_KEY: &[u8] = b"k/a-long-key-with-more-than-sixty-four-bytes-so-that-a-compressed-path-must-be-split-0123456789";
const KEY_PROBES: [&[u8]; 5] = [b"k", b"kx", b"m", b"", b"q"];
const PREFIX_PROBES: [&[u8]; 4] = [b"", b"k", b"kx", b"q"];
const KEY_PROBES2: [&[u8]; 8] = [b"k", b"", b"k\0", b"k\0x", b"k\xff", LONG_KEY, b"q", b"k\0y"];
const PREFIX_PROBES2: [&[u8]; 6] = [b"", b"k", b"k\0", b"k\xff", b"k/a-long", b"q"];

impl fmt::Debug for Op {
    fn fmt(&self, f: &mut fmt::Formatter<'_>) -> fmt::Result {
        match self {
            Op::Put(r) => write!(f, "Put({:?})", r),
            Op::PutBatch(v) => {
                write!(f, "PutBatch(")?;
                for (i, r) in v.iter().enumerate() {
                    if i > 0 {
                        write!(f, ",")?;
                    }
                    write!(f, "{:?}", r)?;
                }
                write!(f, ")")
            }
            Op::PutKey(k, r) => {
                // the original keys print as before ("PutKey(k,ab)"); the appended ones escaped ("PutKey(k\\x00,ab)")
                let key = KEYS[*k as usize];
                if key.len() > 16 {
                    write!(f, "PutKey(<long:{}>,{:?})", key.len(), r)
                } else {
                    write!(f, "PutKey({},{:?})", key.escape_ascii(), r)
                }
            }
            Op::Remove(j) => write!(f, "Remove(#{j})"),
            Op::RemoveBatch(j, k) => write!(f, "RemoveBatch(#{j},#{k})"),
            Op::Reopen => write!(f, "Reopen"),
            Op::Extra(name) => write!(f, "{name}"),
        }
    }
}

#[derive(Default)]
pub struct Model {
    live: BTreeMap<u32, Vec<u8>>,
    /// distinct issued ids, most recently issued last
    issued: Vec<u32>,
    /// key -> (ids put under that key in order, whether any of them was ever removed)
    keys: BTreeMap<Vec<u8>, (Vec<u32>, bool)>,
    key_of: BTreeMap<u32, Vec<u8>>,
}

impl Model {
    fn nth_recent(&self, j: usize) -> Option<u32> {
        if j < self.issued.len() {
            Some(self.issued[self.issued.len() - 1 - j])
        } else {
            None
        }
    }
    /// record a successful put; Err if the id is currently held by a live record
    fn issue(&mut self, id: u32, data: Vec<u8>, what: &str) -> Result<(), Fail> {
        if let Some(old) = self.live.get(&id) {
            return Err(failc(
                "id_reuse",
                "live_id_reissued",
                format!("{what} returned id {id}, which is still held by a live record {}", brief(old)),
            ));
        }
        self.issued.retain(|x| *x != id);
        self.issued.push(id);
        self.key_of.remove(&id);
        self.live.insert(id, data);
        Ok(())
    }
    fn removed(&mut self, id: u32) {
        self.live.remove(&id);
        if let Some(k) = self.key_of.get(&id) {
            if let Some(e) = self.keys.get_mut(k) {
                e.1 = true;
            }
        }
    }
    fn probes(&self) -> Vec<u32> {
        let max = self.issued.iter().copied().max();
        let mut v: Vec<u32> = match max {
            Some(m) => (0..=m.saturating_add(1)).collect(),
            None => vec![0, 1],
        };
        v.push(u32::MAX);
        v
    }
}

pub struct St {
    store: Option<Box<dyn StoreLike>>,
    model: Model,
    dir: PathBuf,
}

pub struct StoreSpec {
    pub name: String,
    pub make: Box<dyn Fn(&Path) -> R<Box<dyn StoreLike>>>,
    pub records: Vec<Rec>,
    pub batches: Vec<Vec<Rec>>,
    /// number of keys of `KEYS` used by `PutKey` (0 = no keyed puts)
    pub nkeys: u8,
    /// indices into `KEYS` used by `PutKey` (`keyed(n, ..)` = the first n)
    pub key_set: Vec<u8>,
    pub key_probes: Vec<&'static [u8]>,
    pub prefix_probes: Vec<&'static [u8]>,
    /// named extra mutators (`Op::Extra`), enabled in every state
    pub extras: Vec<&'static str>,
    /// scripted prefix: the model of the start state, where `make` does not return an empty store
    pub start: Option<fn() -> Vec<(u32, Vec<u8>)>>,
    pub key_records: Vec<Rec>,
    pub removes: usize,
    pub remove_batch: bool,
    pub reopen: bool,
    pub depth_quick: usize,
    pub depth_thorough: usize,
}

impl StoreSpec {
    fn new(name: &str, make: impl Fn(&Path) -> R<Box<dyn StoreLike>> + 'static) -> StoreSpec {
        StoreSpec {
            name: name.to_string(),
            make: Box::new(make),
            records: vec![E, A, ZZ, A64, C300],
            batches: vec![vec![AB, A64]],
            nkeys: 0,
            key_set: vec![],
            key_probes: KEY_PROBES.to_vec(),
            prefix_probes: PREFIX_PROBES.to_vec(),
            extras: vec![],
            start: None,
            key_records: vec![],
            removes: 3,
            remove_batch: false,
            reopen: false,
            depth_quick: 4,
            depth_thorough: 5,
        }
    }
    fn records(mut self, r: &[Rec]) -> Self {
        self.records = r.to_vec();
        self
    }
    fn batches(mut self, b: &[&[Rec]]) -> Self {
        self.batches = b.iter().map(|x| x.to_vec()).collect();
        self
    }
    fn depth(mut self, q: usize, t: usize) -> Self {
        self.depth_quick = q;
        self.depth_thorough = t;
        self
    }
    fn keyed(mut self, nkeys: u8, recs: &[Rec]) -> Self {
        self.nkeys = nkeys;
        self.key_set = (0..nkeys).collect();
        self.key_records = recs.to_vec();
        self
    }
    /// keyed puts over an explicit subset of `KEYS`, with the second probe set
    fn keyed_set(mut self, keys: &[u8], recs: &[Rec]) -> Self {
        self.nkeys = keys.len() as u8;
        self.key_set = keys.to_vec();
        self.key_records = recs.to_vec();
        self.key_probes = KEY_PROBES2.to_vec();
        self.prefix_probes = PREFIX_PROBES2.to_vec();
        self
    }
    fn extras(mut self, names: &[&'static str]) -> Self {
        self.extras = names.to_vec();
        self
    }
    fn removes(mut self, n: usize) -> Self {
        self.removes = n;
        self
    }
    fn start(mut self, f: fn() -> Vec<(u32, Vec<u8>)>) -> Self {
        self.start = Some(f);
        self
    }
    fn remove_batch(mut self) -> Self {
        self.remove_batch = true;
        self
    }
    fn reopen(mut self) -> Self {
        self.reopen = true;
        self
    }
}

impl SeqSpec for StoreSpec {
    type Op = Op;
    type St = St;

    fn name(&self) -> String {
        self.name.clone()
    }
    fn depth(&self, tier: Tier) -> usize {
        tier.pick(self.depth_quick, self.depth_thorough)
    }
    fn bound(&self, tier: Tier) -> String {
        format!(
            "{}all histories of <= {} mutators from {{put(r) r in {:?}; put_batch(b) b in {:?}; put_with_key(k,r) k in {:?}, r in {:?}; remove(j-th most recent id) j<{}{}{}{}}}; observers after every step on ids 0..=max_issued+1 and u32::MAX: get, contains, size, len, is_empty, get_batch, iter_ids, iter_blobs (+ get_by_key/contains_key/get_by_prefix where offered)",
            if self.start.is_some() { "start state: a store that already holds records (see subject name); " } else { "" },
            self.depth(tier),
            self.records,
            self.batches,
            self.key_set.iter().map(|k| KEYS[*k as usize].escape_ascii().to_string()).collect::<Vec<_>>(),
            self.key_records,
            self.removes,
            if self.remove_batch { "; remove_batch(#0,#1)" } else { "" },
            if self.reopen { "; save->load" } else { "" },
            if self.extras.is_empty() { String::new() } else { format!("; {:?}", self.extras) },
        )
    }
    fn init(&self, scratch: &Path) -> Result<St, Fail> {
        let dir = scratch.join(format!("c03-{:016x}", h64(&self.name)));
        let store = (self.make)(&dir).map_err(|e| Fail::new("construct", e))?;
        let mut model = Model::default();
        if let Some(f) = self.start {
            for (id, d) in f() {
                model.issue(id, d, "start state")?;
            }
        }
        Ok(St { store: Some(store), model, dir })
    }
    fn ops(&self, st: &St) -> Vec<Op> {
        let mut v = Vec::new();
        for &r in &self.records {
            v.push(Op::Put(r));
        }
        for &k in &self.key_set {
            for &r in &self.key_records {
                v.push(Op::PutKey(k, r));
            }
        }
        for j in 0..self.removes.min(st.model.issued.len()) {
            v.push(Op::Remove(j));
        }
        for b in &self.batches {
            v.push(Op::PutBatch(b.clone()));
        }
        if self.remove_batch && st.model.issued.len() >= 2 {
            v.push(Op::RemoveBatch(0, 1));
        }
        if self.reopen {
            v.push(Op::Reopen);
        }
        for &e in &self.extras {
            v.push(Op::Extra(e));
        }
        v
    }
    fn apply(&self, st: &mut St, op: &Op) -> Result<(), Fail> {
        let store = st.store.as_mut().expect("store present");
        match op {
            // a refusal leaves the model unchanged, but only the refusals the unchanged library makes as well are tolerated
            // (label: the operation as printed - it names the record / key - plus whether anything was removed / the store
            // was finalised before, which is what the legitimate refusals depend on)
            Op::Put(r) => {
                let d = r.bytes();
                match store.put(&d) {
                    Ok(id) => st.model.issue(id, d, "put")?,
                    Err(e) => zverif::core::tolerate_refusal(&self.name(), &format!("{:?}/live={}/issued={}", op, st.model.live.len().min(3), st.model.issued.len().min(3)), &e.to_string())?,
                }
            }
            Op::PutKey(k, r) => {
                let d = r.bytes();
                let key = KEYS[*k as usize].to_vec();
                match store.put_with_key(&key, &d) {
                    Some(Ok(id)) => {
                        st.model.issue(id, d, "put_with_key")?;
                        st.model.key_of.insert(id, key.clone());
                        st.model.keys.entry(key).or_default().0.push(id);
                    }
                    Some(Err(e)) => zverif::core::tolerate_refusal(&self.name(), &format!("{:?}/live={}/issued={}", op, st.model.live.len().min(3), st.model.issued.len().min(3)), &e.to_string())?,
                    None => {}
                }
            }
            Op::PutBatch(b) => {
                let data: Vec<Vec<u8>> = b.iter().map(|r| r.bytes()).collect();
                if let Some(Ok(ids)) = store.put_batch(data.clone()) {
                    if ids.len() != data.len() {
                        return Err(failc("put_batch_ids", "wrong_count", format!("put_batch of {} records returned {} ids", data.len(), ids.len())));
                    }
                    for (id, d) in ids.into_iter().zip(data) {
                        st.model.issue(id, d, "put_batch")?;
                    }
                }
            }
            Op::Remove(j) => {
                let id = st.model.nth_recent(*j).expect("enabled");
                let was_live = st.model.live.contains_key(&id);
                match store.remove(id) {
                    Ok(_) => st.model.removed(id),
                    Err(e) => zverif::core::tolerate_refusal(&self.name(), &format!("remove/live_record={was_live}"), &e.to_string())?,
                }
            }
            Op::RemoveBatch(j, k) => {
                let ids = [st.model.nth_recent(*j).expect("enabled"), st.model.nth_recent(*k).expect("enabled")];
                let live_before = ids.iter().filter(|id| st.model.live.contains_key(id)).count();
                if let Some(Ok(n)) = store.remove_batch(&ids) {
                    // the count says how many were removed; the observers say which
                    if n > live_before {
                        return Err(failc("remove_batch_count", "too_many", format!("remove_batch({:?}) = {n}, only {live_before} of them were live", ids)));
                    }
                    if n == live_before {
                        for id in ids {
                            st.model.removed(id);
                        }
                    } else {
                        // partial removal: resynchronise on `contains` (the observers then check everything else)
                        for id in ids {
                            if !store.contains(id) {
                                st.model.removed(id);
                            }
                        }
                    }
                }
            }
            Op::Reopen => {
                let s = st.store.take().expect("store present");
                match s.reopen(&st.dir) {
                    None => {
                        // not offered: continue on a fresh store is not meaningful; rebuild is impossible, so refuse the history
                        return Err(Fail::new("harness", "Reopen enabled for a store that does not offer it"));
                    }
                    Some(Ok(s2)) => st.store = Some(s2),
                    Some(Err(e)) => return Err(failc("save_load", "load_err", format!("save->load of a store holding {} live records failed: {e}", st.model.live.len()))),
                }
            }
            Op::Extra("Clone") => match store.clone_box() {
                Some(c) => st.store = Some(c),
                None => return Err(Fail::new("harness", "Clone enabled for a store that does not offer it")),
            },
            Op::Extra(name) => match store.extra(name) {
                None => return Err(Fail::new("harness", format!("{name} enabled for a store that does not offer it"))),
                // Err = refused, nothing may have changed
                Some(Err(_)) | Some(Ok(Effect::Unchanged)) => {}
                Some(Ok(Effect::Cleared)) => {
                    let ids: Vec<u32> = st.model.live.keys().copied().collect();
                    for id in ids {
                        st.model.removed(id);
                    }
                }
            },
        }
        Ok(())
    }
    fn observe(&self, st: &mut St, h: &mut DefaultHasher) -> Result<(), Fail> {
        st.model.live.hash(h);
        st.model.issued.hash(h);
        let probes = st.model.probes();
        let store = st.store.as_mut().expect("store present");
        observe_store(store.as_mut(), &st.model.live, &probes, "")?;

        // keyed access paths, judged only where the expected answer is unambiguous:
        //   no record was ever put under k, or every record put under k is removed  -> absent
        //   records were put under k and none of them was ever removed             -> the latest one
        if self.nkeys > 0 {
            let mut unambiguous = true;
            let mut expect: BTreeMap<Vec<u8>, Option<Vec<u8>>> = BTreeMap::new();
            for &k in &self.key_probes {
                let e = match st.model.keys.get(k) {
                    None => Some(None),
                    Some((ids, any_removed)) => {
                        let live: Vec<u32> = ids.iter().copied().filter(|id| st.model.live.contains_key(id) && st.model.key_of.get(id).map(|x| x.as_slice()) == Some(k)).collect();
                        if live.is_empty() {
                            Some(None)
                        } else if !any_removed {
                            Some(Some(st.model.live[live.last().unwrap()].clone()))
                        } else {
                            None
                        }
                    }
                };
                match e {
                    Some(x) => {
                        expect.insert(k.to_vec(), x);
                    }
                    None => unambiguous = false,
                }
            }
            for (k, want) in &expect {
                if let Some(got) = store.get_by_key(k) {
                    match (want, got) {
                        (Some(w), Ok(g)) => {
                            if &g != w {
                                return Err(failc("get_by_key", bytes_class(w, &g), format!("get_by_key({}) = {}, last stored under that key {}", brief(k), brief(&g), brief(w))));
                            }
                        }
                        (Some(w), Err(e)) => {
                            return Err(failc("get_by_key", "err", format!("get_by_key({}) = Err({e}), a live record {} was stored under that key and none removed", brief(k), brief(w))))
                        }
                        (None, Ok(g)) => {
                            return Err(failc("get_by_key_absent", "served", format!("get_by_key({}) = Ok({}) but no live record has that key", brief(k), brief(&g))))
                        }
                        (None, Err(_)) => {}
                    }
                }
                if let Some(c) = store.contains_key(k) {
                    if c != want.is_some() {
                        return Err(failc("contains_key", if c { "true_for_absent" } else { "false_for_live" }, format!("contains_key({}) = {c}, model says {}", brief(k), want.is_some())));
                    }
                }
            }
            if unambiguous {
                for &p in &self.prefix_probes {
                    if let Some(r) = store.get_by_prefix(p) {
                        let want: Vec<(Vec<u8>, Vec<u8>)> =
                            expect.iter().filter(|(k, v)| k.starts_with(p) && v.is_some()).map(|(k, v)| (k.clone(), v.clone().unwrap())).collect();
                        match r {
                            Ok(got) => {
                                // keyless put() stores under a synthetic "__blob_<id>" key: those pairs are not judged here
                                let mut got: Vec<(Vec<u8>, Vec<u8>)> = got.into_iter().filter(|(k, _)| !k.starts_with(b"__blob_")).collect();
                                got.sort();
                                if got != want {
                                    return Err(failc(
                                        "get_by_prefix",
                                        if got.len() != want.len() { "wrong_count" } else { "wrong_entry" },
                                        format!("get_by_prefix({}) returned {} pairs {:?}, expected {:?}", brief(p), got.len(), got.iter().map(|(k, v)| (brief(k), brief(v))).collect::<Vec<_>>(), want.iter().map(|(k, v)| (brief(k), brief(v))).collect::<Vec<_>>()),
                                    ));
                                }
                            }
                            Err(e) => return Err(failc("get_by_prefix", "err", format!("get_by_prefix({}) = Err({e})", brief(p)))),
                        }
                    }
                }
            }
        }
        Ok(())
    }
    fn finish(&self, st: St) -> Result<(), Fail> {
        drop(st.store);
        let _ = std::fs::remove_dir_all(&st.dir);
        Ok(())
    }
}

// ---------------------------------------------------------------------------------------------
// constructors of the mutable stores

fn boxed<S: StoreLike + 'static>(s: S) -> Box<dyn StoreLike> {
    Box::new(s)
}

fn cached(strategy: CacheWriteStrategy, capacity: usize) -> R<Box<dyn StoreLike>> {
    let cfg = PageCacheConfig::balanced().with_capacity(capacity);
    CachedBlobStore::with_write_strategy(MemoryBlobStore::new(), cfg, strategy).map(boxed).map_err(|e| e.to_string())
}

fn dictzip(entropy: DzEntropy, interleave: u8, ratio: f32, cache_bytes: usize, min_compress: usize) -> R<Box<dyn StoreLike>> {
    let mut cfg = DictZipConfig::default();
    cfg.entropy_algorithm = entropy;
    cfg.entropy_interleaved = interleave;
    // ratio 1.0 = accept the entropy stage whenever it does not expand the blob, so that the decode path is driven
    cfg.entropy_zip_ratio_require = ratio;
    cfg.cache_size_bytes = cache_bytes;
    cfg.min_compression_size = min_compress;
    cfg.dict_builder_config.use_parallel = false;
    cfg.dict_builder_config.enable_progress = false;
    cfg.dict_builder_config.sample_ratio = 1.0;
    cfg.dict_builder_config.target_dict_size = 64 * 1024;
    cfg.dict_builder_config.max_dict_size = 128 * 1024;
    let mut b = DictZipBlobStoreBuilder::with_config(cfg).map_err(|e| e.to_string())?;
    b.add_training_sample(&training()).map_err(|e| e.to_string())?;
    b.finish().map(boxed).map_err(|e| e.to_string())
}

/// the four documented configuration presets (and the conversion from a NestLoudsTrieConfig): dictionary builder policy,
/// pattern lengths, min_compression_size (16..256) and cache size all differ from the hand-made configurations above
fn dictzip_preset(which: &str) -> R<Box<dyn StoreLike>> {
    if which == "from_nest_config" {
        let conf = zipora::config::nest_louds_trie::NestLoudsTrieConfig::default();
        return DictZipBlobStore::build_from_training_samples(&[training()], &conf).map(boxed).map_err(|e| e.to_string());
    }
    let mut cfg = match which {
        "text" => DictZipConfig::text_compression(),
        "binary" => DictZipConfig::binary_compression(),
        "log" => DictZipConfig::log_compression(),
        _ => DictZipConfig::realtime_compression(),
    };
    cfg.dict_builder_config.use_parallel = false;
    cfg.dict_builder_config.enable_progress = false;
    let mut b = DictZipBlobStoreBuilder::with_config(cfg).map_err(|e| e.to_string())?;
    b.add_training_sample(&training()).map_err(|e| e.to_string())?;
    b.finish().map(boxed).map_err(|e| e.to_string())
}

fn register_e1(reg: &mut zverif::Registry) {
    reg.add(Seq(StoreSpec::new("MemoryBlobStore", |_| Ok(boxed(MemoryBlobStore::new()))).remove_batch().reopen()));
    reg.add(Seq(
        StoreSpec::new("PlainBlobStore", |dir| PlainBlobStore::create_new(dir).map(boxed).map_err(|e| e.to_string()))
            .records(&[E, ZZ, A64])
            .batches(&[&[AB, C300]])
            .remove_batch()
            .reopen()
            .depth(4, 5),
    ));
    for level in [1, 9] {
        reg.add(Seq(
            StoreSpec::new(&format!("ZstdBlobStore<Memory>[level={level}]"), move |_| Ok(boxed(ZstdBlobStore::new(MemoryBlobStore::new(), level))))
                .remove_batch()
                .reopen()
                .depth(if level == 1 { 4 } else { 3 }, if level == 1 { 5 } else { 4 }),
        ));
    }
    reg.add(Seq(StoreSpec::new("HuffmanBlobStore<Memory>[untrained]", |_| Ok(boxed(HuffmanBlobStore::new(MemoryBlobStore::new()))))));
    // trained on all 256 byte values the encoder of this tree happens to emit 8-bit codes equal to the input;
    // trained on {a,b,z} it really compresses (records with other bytes take put's uncompressed fallback)
    for (tname, corpus) in [("all256", training()), ("abz", [A64.bytes(), AB.bytes(), ZZ.bytes()].concat())] {
        reg.add(Seq(StoreSpec::new(&format!("HuffmanBlobStore<Memory>[trained:{tname}]"), move |_| {
            let mut s = HuffmanBlobStore::new(MemoryBlobStore::new());
            s.add_training_data(&corpus);
            s.build_tree().map_err(|e| e.to_string())?;
            Ok(boxed(s))
        })));
    }
    reg.add(Seq(StoreSpec::new("RansBlobStore<Memory>[untrained]", |_| Ok(boxed(RansBlobStore::new(MemoryBlobStore::new())))).depth(4, 4)));
    reg.add(Seq(StoreSpec::new("RansBlobStore<Memory>[trained]", |_| {
        let mut s = RansBlobStore::new(MemoryBlobStore::new());
        s.train(&training()).map_err(|e| e.to_string())?;
        Ok(boxed(s))
    })));
    reg.add(Seq(
        StoreSpec::new("DictionaryBlobStore<Memory>[untrained]", |_| Ok(boxed(DictionaryBlobStore::new(MemoryBlobStore::new())))).depth(4, 4),
    ));
    reg.add(Seq(StoreSpec::new("DictionaryBlobStore<Memory>[trained]", |_| {
        let mut s = DictionaryBlobStore::new(MemoryBlobStore::new());
        s.train(&training()).map_err(|e| e.to_string())?;
        Ok(boxed(s))
    })));
    for (sname, strat) in
        [("WriteThrough", CacheWriteStrategy::WriteThrough), ("WriteBack", CacheWriteStrategy::WriteBack), ("WriteAround", CacheWriteStrategy::WriteAround)]
    {
        for cap in [4096usize, 8192] {
            reg.add(Seq(
                StoreSpec::new(&format!("CachedBlobStore<Memory>[{sname},cap={cap}]"), move |_| cached(strat, cap))
                    // two p4000 records straddle the first 4096-byte cache page
                    .records(&[E, ZZ, C300, P4000])
                    .batches(&[&[A64, P4000]])
                    .depth(4, if cap == 4096 { 5 } else { 4 }),
            ));
        }
    }
    reg.add(Seq(StoreSpec::new("ZeroLengthBlobStore", |_| Ok(boxed(ZeroLengthBlobStore::new())))
        .records(&[E, A])
        // [e,a]: a batch whose SECOND record is refused (appended by the coverage audit)
        .batches(&[&[E, E], &[A, E], &[E, A]])
        .remove_batch()
        .reopen()
        .depth(5, 6)));
    for (cname, cfg) in [
        ("default", TrieBlobStoreConfig::default as fn() -> TrieBlobStoreConfig),
        ("memory_optimized", TrieBlobStoreConfig::memory_optimized),
        // the same preset with the statistics switched on (len() is read from them): the LOUDS-backed trie behind a working len()
        ("memory_optimized+statistics", || TrieBlobStoreConfig { enable_statistics: true, ..TrieBlobStoreConfig::memory_optimized() }),
        ("security_optimized", TrieBlobStoreConfig::security_optimized),
    ] {
        let q = if cname == "default" { (4, 5) } else { (3, 4) };
        reg.add(Seq(
            StoreSpec::new(&format!("NestLoudsTrieBlobStore[{cname}]"), move |_| Trie::new(cfg()).map(boxed).map_err(|e| e.to_string()))
                .records(&[E, A64])
                .batches(&[&[AB, ZZ]])
                .keyed(3, &[AB, ZZ])
                .remove_batch()
                .depth(q.0, q.1),
        ));
    }
    for (ename, e, il, ratio) in [
        ("None", DzEntropy::None, 0u8, 0.8f32),
        ("HuffmanO1,ratio=0.8,x1", DzEntropy::HuffmanO1, 1, 0.8),
        ("HuffmanO1,ratio=1.0,x1", DzEntropy::HuffmanO1, 1, 1.0),
        ("HuffmanO1,ratio=1.0,x4", DzEntropy::HuffmanO1, 4, 1.0),
        ("Fse,ratio=1.0", DzEntropy::Fse, 0, 1.0),
    ] {
        // cache of 1 KiB = one cached record (LruMap capacity 1), min_compression_size 2: "ab"/"zz" take the compress path
        let none = ename == "None";
        reg.add(Seq(
            StoreSpec::new(&format!("DictZipBlobStore[entropy={ename},cache=1]"), move |_| dictzip(e, il, ratio, 1024, 2))
                .records(&[E, ZZ, A64, C300])
                .batches(&[&[AB, A64]])
                .depth(if none { 3 } else { 2 }, if none { 4 } else { 3 }),
        ));
    }
    reg.add(Seq(
        StoreSpec::new("DictZipBlobStore[entropy=None,cache=2,min=64]", |_| dictzip(DzEntropy::None, 0, 0.8, 2048, 64))
            .records(&[A, A64, C300])
            .batches(&[&[E, A64]])
            .remove_batch()
            .depth(2, 3),
    ));
}

/// Subjects added by the coverage audit (new names; the subjects above keep their alphabets, except for appended
/// batches): operations of the inherent APIs that were not in any alphabet, wrapper stacks of depth 2, start states
/// other than the empty store, configuration variants that were never instantiated, keys with special bytes.
fn register_e1_audit(reg: &mut zverif::Registry) {
    // MemoryBlobStore: clear() (resets the id counter: ids are handed out again), Clone, reserve + shrink_to_fit, flush
    reg.add(Seq(
        StoreSpec::new("MemoryBlobStore/clear+clone", |_| Ok(boxed(MemoryBlobStore::new())))
            .records(&[E, ZZ, A64])
            .removes(2)
            .remove_batch()
            .reopen()
            .extras(&["Clear", "Clone", "ShrinkToFit", "Flush"])
            .depth(4, 5),
    ));
    // start state other than the empty store: from_data with a gap in the ids and with id 0 in use
    fn from_data_start() -> Vec<(u32, Vec<u8>)> {
        vec![(0, AB.bytes()), (3, Vec::new()), (5, C300.bytes())]
    }
    reg.add(Seq(
        StoreSpec::new("MemoryBlobStore[from_data{0,3,5}]", |_| Ok(boxed(MemoryBlobStore::from_data(from_data_start().into_iter().collect()))))
            .records(&[E, ZZ, A64])
            .remove_batch()
            .reopen()
            .extras(&["Clone"])
            .start(from_data_start)
            .depth(3, 4),
    ));
    reg.add(Seq(
        StoreSpec::new("MemoryBlobStore[with_capacity(1)]", |_| Ok(boxed(MemoryBlobStore::with_capacity(1)))).records(&[E, A64]).removes(2).extras(&["ShrinkToFit"]).depth(4, 5),
    ));

    // wrapper stacks of depth 2 (the statement: "every store type, wrapper stack")
    reg.add(Seq(
        StoreSpec::new("ZstdBlobStore<ZstdBlobStore<Memory>>", |_| Ok(boxed(ZstdBlobStore::new(ZstdBlobStore::new(MemoryBlobStore::new(), 1), 3))))
            .records(&[E, ZZ, A64, C300])
            .remove_batch()
            .reopen()
            .depth(3, 4),
    ));
    reg.add(Seq(
        StoreSpec::new("ZstdBlobStore<PlainBlobStore>", |dir| PlainBlobStore::create_new(dir).map(|p| boxed(ZstdBlobStore::new(p, 1))).map_err(|e| e.to_string()))
            .records(&[E, A64])
            .batches(&[&[ZZ, C300]])
            .removes(2)
            .remove_batch()
            .reopen()
            .depth(3, 4),
    ));
    reg.add(Seq(
        StoreSpec::new("CachedBlobStore<ZstdBlobStore<Memory>>[WriteBack,cap=4096]", |_| {
            let cfg = PageCacheConfig::balanced().with_capacity(4096);
            CachedBlobStore::with_write_strategy(ZstdBlobStore::new(MemoryBlobStore::new(), 1), cfg, CacheWriteStrategy::WriteBack).map(boxed).map_err(|e| e.to_string())
        })
        .records(&[E, A64, P4000])
        .batches(&[])
        .extras(&["FlushCache"])
        .depth(3, 4),
    ));
    for (iname, retrain) in [("", false), ("+retrain", true)] {
        let mut sp = StoreSpec::new(&format!("HuffmanBlobStore<ZstdBlobStore<Memory>>[trained:abz]{iname}"), |_| {
            let mut s = HuffmanBlobStore::new(ZstdBlobStore::new(MemoryBlobStore::new(), 1));
            s.add_training_data(&[A64.bytes(), AB.bytes(), ZZ.bytes()].concat());
            s.build_tree().map_err(|e| e.to_string())?;
            Ok(boxed(s))
        })
        .records(&[E, A, ZZ, A64])
        .batches(&[])
        .depth(3, 4);
        if retrain {
            sp = sp.extras(&["Retrain"]);
        }
        reg.add(Seq(sp));
    }
    reg.add(Seq(
        StoreSpec::new("ZstdBlobStore<HuffmanBlobStore<Memory>>[trained:abz]", |_| {
            let mut s = HuffmanBlobStore::new(MemoryBlobStore::new());
            s.add_training_data(&[A64.bytes(), AB.bytes(), ZZ.bytes()].concat());
            s.build_tree().map_err(|e| e.to_string())?;
            Ok(boxed(ZstdBlobStore::new(s, 1)))
        })
        .records(&[E, A, ZZ, A64])
        .batches(&[])
        .depth(3, 4),
    ));

    // HuffmanBlobStore: a tree over ONE symbol (the degenerate code), and re-training in the middle of a history
    // (records stored before keep the tree they were encoded with)
    reg.add(Seq(
        StoreSpec::new("HuffmanBlobStore<Memory>[trained:a-only]", |_| {
            let mut s = HuffmanBlobStore::new(MemoryBlobStore::new());
            s.add_training_data(&A64.bytes());
            s.build_tree().map_err(|e| e.to_string())?;
            Ok(boxed(s))
        })
        .records(&[E, A, ZZ, A64])
        .batches(&[])
        .extras(&["Retrain"])
        .depth(4, 5),
    ));
    reg.add(Seq(
        StoreSpec::new("HuffmanBlobStore<Memory>[trained:abz]+retrain", |_| {
            let mut s = HuffmanBlobStore::new(MemoryBlobStore::new());
            s.add_training_data(&[A64.bytes(), AB.bytes(), ZZ.bytes()].concat());
            s.build_tree().map_err(|e| e.to_string())?;
            Ok(boxed(s))
        })
        .records(&[A, ZZ, A64])
        .batches(&[])
        .extras(&["Retrain"])
        .depth(4, 5),
    ));
    reg.add(Seq(
        StoreSpec::new("HuffmanBlobStore<Memory>[untrained]+retrain", |_| Ok(boxed(HuffmanBlobStore::new(MemoryBlobStore::new()))))
            .records(&[A, ZZ, A64])
            .batches(&[])
            .extras(&["Retrain"])
            .depth(4, 5),
    ));

    // CachedBlobStore: the switches of the inherent API in the middle of a history
    reg.add(Seq(
        StoreSpec::new("CachedBlobStore<Memory>[WriteThrough,cap=4096]/switches", |_| cached(CacheWriteStrategy::WriteThrough, 4096))
            .records(&[ZZ, P4000])
            .batches(&[])
            .removes(2)
            .extras(&["DisableCache", "EnableCache", "SetWriteBack", "SetWriteAround", "FlushCache", "Prefetch"])
            .depth(4, 5),
    ));

    // NestLoudsTrieBlobStore: special keys (empty key, two keys that share a prefix through a NUL byte, 0xff, a key
    // longer than every max_path_length), finalize() in the middle of a history, the preset that was never instantiated
    reg.add(Seq(
        StoreSpec::new("NestLoudsTrieBlobStore[default]/special_keys", |_| Trie::new(TrieBlobStoreConfig::default()).map(boxed).map_err(|e| e.to_string()))
            .records(&[E])
            .batches(&[])
            .keyed_set(&[3, 4, 5, 6, 0, 7], &[AB, ZZ])
            .removes(2)
            .depth(3, 4),
    ));
    reg.add(Seq(
        StoreSpec::new("NestLoudsTrieBlobStore[security_optimized]/special_keys", |_| Trie::new(TrieBlobStoreConfig::security_optimized()).map(boxed).map_err(|e| e.to_string()))
            .records(&[])
            .batches(&[])
            .keyed_set(&[3, 4, 5, 6, 7], &[AB])
            .removes(2)
            .depth(3, 4),
    ));
    reg.add(Seq(
        StoreSpec::new("NestLoudsTrieBlobStore[default]/finalize", |_| Trie::new(TrieBlobStoreConfig::default()).map(boxed).map_err(|e| e.to_string()))
            .records(&[E, A64])
            .batches(&[&[AB, ZZ]])
            .keyed(2, &[AB, ZZ])
            .removes(2)
            .remove_batch()
            .extras(&["Finalize", "Flush"])
            .depth(4, 4),
    ));
    reg.add(Seq(
        StoreSpec::new("NestLoudsTrieBlobStore[performance_optimized]", |_| Trie::new(TrieBlobStoreConfig::performance_optimized()).map(boxed).map_err(|e| e.to_string()))
            .records(&[E, A64])
            .batches(&[&[AB, ZZ]])
            .keyed(3, &[AB, ZZ])
            .remove_batch()
            .depth(3, 4),
    ));
    // key cache of ONE entry (the eviction branch of put_with_key) and no cache at all
    for kc in [0usize, 1] {
        reg.add(Seq(
            StoreSpec::new(&format!("NestLoudsTrieBlobStore[default,key_cache_size={kc}]"), move |_| {
                Trie::new(TrieBlobStoreConfig { key_cache_size: kc, ..TrieBlobStoreConfig::default() }).map(boxed).map_err(|e| e.to_string())
            })
            .records(&[A64])
            .batches(&[])
            .keyed(3, &[AB, ZZ])
            .removes(2)
            .depth(3, 4),
        ));
    }

    // DictZipBlobStore: the interleave factors and the entropy/interleave combination that were never instantiated,
    // optimize() in the middle of a history
    for (ename, e, il) in [("HuffmanO1,ratio=1.0,x2", DzEntropy::HuffmanO1, 2u8), ("HuffmanO1,ratio=1.0,x8", DzEntropy::HuffmanO1, 8), ("Fse,ratio=1.0,x4", DzEntropy::Fse, 4)] {
        reg.add(Seq(
            StoreSpec::new(&format!("DictZipBlobStore[entropy={ename},cache=1]"), move |_| dictzip(e, il, 1.0, 1024, 2))
                .records(&[ZZ, A64, C300])
                .batches(&[])
                .removes(1)
                .depth(2, 3),
        ));
    }
    reg.add(Seq(
        StoreSpec::new("DictZipBlobStore[entropy=None,cache=1]/optimize", |_| dictzip(DzEntropy::None, 0, 0.8, 1024, 2))
            .records(&[ZZ, C300])
            .batches(&[&[A64, E]])
            .removes(2)
            .extras(&["Optimize"])
            .depth(3, 3),
    ));
    // (coverage audit) the configuration presets, never instantiated before
    for which in ["text", "binary", "log", "realtime", "from_nest_config"] {
        reg.add(Seq(
            StoreSpec::new(&format!("DictZipBlobStore[preset={which}]"), move |_| dictzip_preset(which))
                .records(&[ZZ, A64, C300])
                .batches(&[])
                .removes(1)
                .depth(3, 4),
        ));
    }
    // load_dictionary() in the middle of a history: it drops every record, also those a read has left in the cache
    reg.add(Seq(
        StoreSpec::new("DictZipBlobStore[entropy=None,cache=1]/reload_dict", |_| dictzip(DzEntropy::None, 0, 0.8, 1024, 2))
            .records(&[ZZ, C300])
            .batches(&[])
            .removes(1)
            .extras(&["ReloadDict"])
            .depth(3, 4),
    ));
}

// ---------------------------------------------------------------------------------------------
// E2 — bulk builders

#[derive(Clone, Hash, Serialize, Deserialize, Debug)]
pub enum ListSpec {
    /// explicit list over R (record indices)
    Small(Vec<u8>),
    /// deterministic constructor, see `pattern_list`
    Pattern { kind: String, n: usize },
}

const PATTERN_KINDS: [&str; 5] = ["varlen", "fixed8", "mixed", "empty", "big"];
/// pattern kinds appended by the coverage audit, enumerated for the lengths `AUDIT_PATTERN_LENGTHS` only:
/// * `kilo1040` — every record 1040 bytes: with 64 records per offset block the last in-block delta is 63*1040 =
///   65520 (just below 2^16 = the default offset_width); 4 checksum bytes per record or 128-record blocks push it over,
///   so the same list is accepted by some builder configurations and refused (skipped) by others;
/// * `kilo1041` — 1041 bytes: 63*1041 = 65583, over the limit for every uncompressed 64-block configuration;
/// * `large` — mostly 20-byte records, record 10 of every 64 has 5000 bytes (> the 4096-byte copy threshold), the last
///   record of every 64-block has 70 000 bytes (> 64 KiB: block samples beyond 16 bits, one record > one chunk);
/// * `dup` — four distinct records repeated (deduplication in SimpleZip, equal neighbours in the offset index).
/// * `sum4096` / `sum65536` (`…c`: 4 bytes less per record, for configurations that append a 4-byte checksum) — four
///   records whose stored bytes add up to EXACTLY 2^12 / 2^16, followed by empty records: the last in-block offset delta
///   equals 2^offset_width of the memory-optimised / default offset index (a builder must refuse it or store it faithfully).
const AUDIT_PATTERN_KINDS: [&str; 8] = ["kilo1040", "kilo1041", "large", "dup", "sum4096", "sum4096c", "sum65536", "sum65536c"];
const AUDIT_PATTERN_LENGTHS: [usize; 4] = [63, 64, 65, 129];
const PATTERN_LENGTHS: [usize; 10] = [63, 64, 65, 127, 128, 129, 255, 256, 257, 1000];

fn pattern_record(kind: &str, i: usize) -> Vec<u8> {
    let fill = |len: usize| -> Vec<u8> { (0..len).map(|j| ((i * 7 + j * 13) % 251) as u8).collect() };
    match kind {
        "varlen" => fill(i % 7),
        "fixed8" => fill(8),
        // mostly 4 bytes, every 5th record 0..2 bytes, every 11th 9 bytes
        "mixed" => fill(if i % 11 == 10 { 9 } else if i % 5 == 4 { i % 3 } else { 4 }),
        "empty" => Vec::new(),
        "kilo1040" => fill(1040),
        "kilo1041" => fill(1041),
        "large" => {
            if i % 64 == 63 {
                (0..70_000usize).map(|j| ((i * 31 + j * 7 + (j >> 8)) % 253) as u8).collect()
            } else if i % 64 == 10 {
                fill(5000)
            } else {
                fill(20)
            }
        }
        "sum4096" => fill(if i < 4 { 1024 } else { 0 }),
        "sum4096c" => fill(if i < 4 { 1020 } else { 0 }),
        "sum65536" => fill(if i < 4 { 16384 } else { 0 }),
        "sum65536c" => fill(if i < 4 { 16380 } else { 0 }),
        "dup" => match i % 4 {
            0 => b"same record\n".to_vec(),
            1 => Vec::new(),
            2 => b"same record\n".to_vec(),
            _ => vec![b'a'; 9],
        },
        // small text-like records with delimiters, every 50th record 300 bytes, every 64th 70 x 'a'
        _ => {
            if i % 50 == 49 {
                (0..300usize).map(|j| ((i + j) % 256) as u8).collect()
            } else if i % 64 == 63 {
                vec![b'a'; 70]
            } else {
                format!("rec {} of the list\n", i % 17).into_bytes()
            }
        }
    }
}

impl ListSpec {
    fn expand(&self) -> Vec<Vec<u8>> {
        match self {
            ListSpec::Small(v) => v.iter().map(|r| Rec(*r % NR).bytes()).collect(),
            ListSpec::Pattern { kind, n } => (0..*n).map(|i| pattern_record(kind, i)).collect(),
        }
    }
    fn class(&self) -> String {
        match self {
            ListSpec::Small(v) => format!("small/n={}", v.len()),
            ListSpec::Pattern { kind, n } => format!("{kind}/n={}", if *n <= 65 { "<=65" } else if *n <= 129 { "<=129" } else if *n <= 257 { "<=257" } else { "1000" }),
        }
    }
}

#[derive(Clone, Hash, Serialize, Deserialize, Debug)]
pub struct BulkCase {
    pub variant: String,
    pub list: ListSpec,
}

fn for_lists(tier: Tier, small_max: usize, patterns: bool, f: &mut dyn FnMut(ListSpec) -> bool) -> bool {
    let alphabet: Vec<u8> = (0..NR).collect();
    if !zverif::util::all_strings(&alphabet, small_max, &mut |s| f(ListSpec::Small(s.to_vec()))) {
        return false;
    }
    if patterns {
        for kind in PATTERN_KINDS {
            for &n in &PATTERN_LENGTHS {
                if tier == Tier::Quick && n == 1000 && kind != "varlen" && kind != "big" {
                    continue;
                }
                if !f(ListSpec::Pattern { kind: kind.to_string(), n }) {
                    return false;
                }
            }
        }
        for kind in AUDIT_PATTERN_KINDS {
            for &n in &AUDIT_PATTERN_LENGTHS {
                if !f(ListSpec::Pattern { kind: kind.to_string(), n }) {
                    return false;
                }
            }
        }
    }
    true
}

pub struct Built {
    store: Box<dyn StoreLike>,
    /// ids handed out by the builder, where it hands out ids
    ids: Option<Vec<u32>>,
    /// keys under which the records were added, for keyed builders
    keys: Option<Vec<Vec<u8>>>,
    /// the builder documents that it may reorder records (ids are then judged as a multiset)
    may_reorder: bool,
}

pub struct BulkSpec {
    pub name: String,
    pub variants: Vec<String>,
    pub small_max: (usize, usize),
    pub patterns: bool,
    /// Err = the builder refused the input (skip)
    pub build: fn(&str, &[Vec<u8>]) -> R<Built>,
    pub space_note: &'static str,
}

fn judge_bulk(b: &mut Built, input: &[Vec<u8>], pass_class: String) -> Outcome {
    let n = input.len();
    let store = b.store.as_mut();
    let l = store.len();
    if l != n {
        let class = if l == 0 { "store_empty" } else if l < n { "short" } else { "long" };
        return enumr::fail("bulk_len", class, format!("built store has len() = {l}, {n} records were added"));
    }
    if let Some(ids) = &b.ids {
        let want: Vec<u32> = (0..n as u32).collect();
        if ids != &want {
            return enumr::fail("bulk_ids", "not_0_to_n", format!("builder handed out ids {:?}.. for records 0..{n}", &ids[..ids.len().min(8)]));
        }
    }
    let mut probes: Vec<u32> = (0..n as u32).collect();
    probes.push(n as u32);
    probes.push(n as u32 + 1);
    probes.push(u32::MAX);
    if b.may_reorder {
        // ids are a permutation of the inputs; the keyed path below pins record <-> input
        let mut got: Vec<Vec<u8>> = Vec::new();
        for i in 0..n as u32 {
            match store.get(i) {
                Ok(g) => got.push(g),
                Err(e) => return enumr::fail("bulk_get", "err", format!("get({i}) = Err({e}) in a store built from {n} records")),
            }
        }
        let mut want = input.to_vec();
        want.sort();
        got.sort();
        if got != want {
            return enumr::fail("bulk_get", "multiset_differs", format!("the records returned for ids 0..{n} are not a permutation of the inputs"));
        }
    } else {
        let live: BTreeMap<u32, Vec<u8>> = input.iter().enumerate().map(|(i, d)| (i as u32, d.clone())).collect();
        if let Err(f) = observe_store(store, &live, &probes, "bulk_") {
            return Outcome::Fail(f);
        }
    }
    if let Some(keys) = &b.keys {
        // last record added under each key
        let mut last: BTreeMap<&[u8], &[u8]> = BTreeMap::new();
        for (k, d) in keys.iter().zip(input.iter()) {
            last.insert(k, d);
        }
        for (k, d) in last {
            match store.get_by_key(k) {
                Some(Ok(g)) if g == d => {}
                Some(Ok(g)) => return enumr::fail("bulk_get_by_key", bytes_class(d, &g), format!("get_by_key({}) = {}, added {}", brief(k), brief(&g), brief(d))),
                Some(Err(e)) => return enumr::fail("bulk_get_by_key", "err", format!("get_by_key({}) = Err({e}), added {}", brief(k), brief(d))),
                None => {}
            }
        }
        if let Some(Ok(g)) = store.get_by_key(b"never-added") {
            return enumr::fail("bulk_get_by_key_absent", "served", format!("get_by_key(never-added) = Ok({})", brief(&g)));
        }
    }
    if n == 0 {
        Outcome::trivial(&pass_class)
    } else {
        Outcome::pass(&pass_class)
    }
}

impl EnumSpec for BulkSpec {
    type Case = BulkCase;
    fn name(&self) -> String {
        self.name.clone()
    }
    fn space(&self, tier: Tier) -> String {
        format!(
            "variants {:?} x (S: all record lists of length <= {} over R={:?}{}); {}",
            self.variants,
            tier.pick(self.small_max.0, self.small_max.1),
            REC_NAMES,
            if self.patterns { format!(" ∪ G: patterned lists {:?} x lengths {:?} (quick: n=1000 only for varlen/big) ∪ {:?} x lengths {:?} (1040/1041-byte records: last in-block offset delta just below / above 2^16; 5000- and 70000-byte records; repeated records)", PATTERN_KINDS, PATTERN_LENGTHS, AUDIT_PATTERN_KINDS, AUDIT_PATTERN_LENGTHS) } else { String::new() },
            self.space_note
        )
    }
    fn cases(&self, tier: Tier, f: &mut dyn FnMut(BulkCase) -> bool) {
        for v in &self.variants {
            if !for_lists(tier, tier.pick(self.small_max.0, self.small_max.1), self.patterns, &mut |l| f(BulkCase { variant: v.clone(), list: l })) {
                return;
            }
        }
    }
    fn run(&self, case: &BulkCase) -> Outcome {
        let input = case.list.expand();
        match (self.build)(&case.variant, &input) {
            Err(e) => Outcome::skip(&format!("builder_refused:{}", zverif::core::truncate(&e, 40))),
            Ok(mut b) => judge_bulk(&mut b, &input, case.list.class()),
        }
    }
}

fn zo_config(variant: &str) -> R<ZipOffsetBlobStoreConfig> {
    // "c<level>/k<checksum>/b<log2 block units>" or "preset:<name>" (the four constructors of the config type)
    // optional parts: "nosimd" (enable_simd = false), "w<offset width>-<sample width>", "add_records" (see build_zip_offset)
    let mut cfg = ZipOffsetBlobStoreConfig::default();
    for part in variant.split('/') {
        match part {
            "preset:default" => {
                cfg = ZipOffsetBlobStoreConfig::default();
                continue;
            }
            "preset:performance_optimized" => {
                cfg = ZipOffsetBlobStoreConfig::performance_optimized();
                continue;
            }
            "preset:compression_optimized" => {
                cfg = ZipOffsetBlobStoreConfig::compression_optimized();
                continue;
            }
            "preset:security_optimized" => {
                cfg = ZipOffsetBlobStoreConfig::security_optimized();
                continue;
            }
            "nosimd" => {
                cfg.enable_simd = false;
                continue;
            }
            "add_records" => continue,
            _ => {}
        }
        if let Some(w) = part.strip_prefix('w') {
            let (ow, sw) = w.split_once('-').ok_or_else(|| format!("bad variant {variant}"))?;
            cfg.offset_config.offset_width = ow.parse().map_err(|_| format!("bad variant {variant}"))?;
            cfg.offset_config.sample_width = sw.parse().map_err(|_| format!("bad variant {variant}"))?;
            continue;
        }
        let (h, t) = part.split_at(1);
        let x: u8 = t.parse().map_err(|_| format!("bad variant {variant}"))?;
        match h {
            "c" => cfg.compress_level = x,
            "k" => cfg.checksum_level = x,
            "b" => cfg.offset_config = SortedUintVecConfig { log2_block_units: x, ..cfg.offset_config },
            "n" => {}
            _ => return Err(format!("bad variant {variant}")),
        }
    }
    Ok(cfg)
}

fn build_zip_offset(variant: &str, data: &[Vec<u8>]) -> R<Built> {
    let mut b = ZipOffsetBlobStoreBuilder::with_config(zo_config(variant)?).map_err(|e| e.to_string())?;
    let mut ids = Vec::new();
    if variant.ends_with("/add_records") {
        // the bulk entry point of the builder, after a reserve()
        b.reserve(data.len()).map_err(|e| e.to_string())?;
        ids = b.add_records(data.iter()).map_err(|e| e.to_string())?;
    } else {
        for d in data {
            ids.push(b.add_record(d).map_err(|e| e.to_string())?);
        }
    }
    let s = b.finish().map_err(|e| e.to_string())?;
    Ok(Built { store: boxed(s), ids: Some(ids), keys: None, may_reorder: false })
}

fn build_zip_offset_batch(variant: &str, data: &[Vec<u8>]) -> R<Built> {
    // ".../n<batch size>"
    let batch: usize = variant.rsplit('/').next().and_then(|p| p.strip_prefix('n')).and_then(|x| x.parse().ok()).ok_or("bad variant")?;
    let mut b = BatchZipOffsetBlobStoreBuilder::with_config(zo_config(variant)?, batch).map_err(|e| e.to_string())?;
    for d in data {
        b.add_record(d).map_err(|e| e.to_string())?;
    }
    let s = b.finish().map_err(|e| e.to_string())?;
    // the ids returned by the batch builder's add_record are documented as "next record id": not judged
    Ok(Built { store: boxed(s), ids: None, keys: None, may_reorder: false })
}

fn build_simple_zip(variant: &str, data: &[Vec<u8>]) -> R<Built> {
    let cfg = match variant {
        "default" => SimpleZipConfig::default(),
        "frag1-2" => SimpleZipConfig { min_frag_len: 1, max_frag_len: 2, delimiters: vec![b'a'] },
        "frag2-4/delim=a,space" => SimpleZipConfig { min_frag_len: 2, max_frag_len: 4, delimiters: vec![b'a', b' '] },
        // min == max (no room for a delimiter search) and fragments longer than most records, no delimiters at all
        "frag3-3" => SimpleZipConfig { min_frag_len: 3, max_frag_len: 3, delimiters: vec![b'\n'] },
        "frag8-1024/delim=none" => SimpleZipConfig { min_frag_len: 8, max_frag_len: 1024, delimiters: vec![] },
        _ => return Err(format!("bad variant {variant}")),
    };
    let s = SimpleZipBlobStore::build_from(data, &cfg).map_err(|e| e.to_string())?;
    Ok(Built { store: boxed(s), ids: None, keys: None, may_reorder: false })
}

fn build_mixed_len(variant: &str, data: &[Vec<u8>]) -> R<Built> {
    let s = if variant == "auto" {
        MixedLenBlobStore::build_from(data)
    } else {
        let fl: usize = variant.strip_prefix("fixed_len=").and_then(|x| x.parse().ok()).ok_or("bad variant")?;
        MixedLenBlobStore::build_from_with_fixed_len(data, fl)
    }
    .map_err(|e| e.to_string())?;
    Ok(Built { store: boxed(s), ids: None, keys: None, may_reorder: false })
}

fn build_zero_length(_variant: &str, data: &[Vec<u8>]) -> R<Built> {
    if data.iter().any(|d| !d.is_empty()) {
        return Err("non-empty record".into());
    }
    Ok(Built { store: boxed(ZeroLengthBlobStore::finish(data.len())), ids: None, keys: None, may_reorder: false })
}

/// key of record i: unique, sharing prefixes; one key is a proper prefix of another ("r1" / "r10").
fn trie_key(i: usize, sorted: bool) -> Vec<u8> {
    if sorted {
        format!("r{:05}", i).into_bytes()
    } else {
        // a fixed permutation-ish order: not sorted by key
        format!("r{}", (i * 7 + 3) % 10007).into_bytes()
    }
}

fn build_trie(variant: &str, data: &[Vec<u8>]) -> R<Built> {
    let (how, keys_sorted) = match variant {
        "builder[default]/sorted_keys" => ("builder", true),
        "builder[default]/unsorted_keys" => ("builder", false),
        "builder[memory_optimized]/unsorted_keys" => ("builder_mem", false),
        "build_from_key_value_pairs[default]/unsorted_keys" => ("pairs", false),
        "build_from_key_value_pairs[enable_statistics]/unsorted_keys" => ("pairs_stats", false),
        "builder[default]/add_batch+finish_with_progress/unsorted_keys" => ("builder_batch_progress", false),
        "put_batch_with_keys[default]/unsorted_keys" => ("put_batch_with_keys", false),
        _ => return Err(format!("bad variant {variant}")),
    };
    let keys: Vec<Vec<u8>> = (0..data.len()).map(|i| trie_key(i, keys_sorted)).collect();
    let (store, may_reorder) = match how {
        "pairs" | "pairs_stats" => {
            let pairs: Vec<(Vec<u8>, Vec<u8>)> = keys.iter().cloned().zip(data.iter().cloned()).collect();
            let mut cfg = zipora::config::nest_louds_trie::NestLoudsTrieConfig::default();
            if how == "pairs_stats" {
                cfg.enable_statistics = true;
            }
            (Trie::build_from_key_value_pairs(&pairs, &cfg).map_err(|e| e.to_string())?, false)
        }
        "put_batch_with_keys" => {
            let pairs: Vec<(Vec<u8>, Vec<u8>)> = keys.iter().cloned().zip(data.iter().cloned()).collect();
            let mut s = Trie::new(TrieBlobStoreConfig::default()).map_err(|e| e.to_string())?;
            let ids = s.put_batch_with_keys(pairs).map_err(|e| e.to_string())?;
            return Ok(Built { store: boxed(s), ids: Some(ids), keys: Some(keys), may_reorder: false });
        }
        "builder_batch_progress" => {
            let cfg = TrieBlobStoreConfig::default();
            let reorders = cfg.enable_batch_optimization;
            let mut b = NestLoudsTrieBlobStoreBuilder::<RankSelectInterleaved256>::new(cfg).map_err(|e| e.to_string())?;
            b.reserve(data.len());
            b.add_batch(keys.iter().cloned().zip(data.iter().cloned())).map_err(|e| e.to_string())?;
            let mut calls = 0usize;
            let s = b.finish_with_progress(|_, _| calls += 1).map_err(|e| e.to_string())?;
            (s, reorders)
        }
        _ => {
            let cfg = if how == "builder_mem" { TrieBlobStoreConfig::memory_optimized() } else { TrieBlobStoreConfig::default() };
            // enable_batch_optimization sorts the entries by key before ids are assigned
            let reorders = cfg.enable_batch_optimization && !keys_sorted;
            let mut b = NestLoudsTrieBlobStoreBuilder::<RankSelectInterleaved256>::new(cfg).map_err(|e| e.to_string())?;
            for (k, d) in keys.iter().zip(data.iter()) {
                b.add(k, d).map_err(|e| e.to_string())?;
            }
            (b.finish().map_err(|e| e.to_string())?, reorders)
        }
    };
    Ok(Built { store: boxed(store), ids: None, keys: Some(keys), may_reorder })
}

// save → load of the only bulk store that offers it

pub struct ZipOffsetSaveLoad;

impl EnumSpec for ZipOffsetSaveLoad {
    type Case = BulkCase;
    fn name(&self) -> String {
        "ZipOffsetBlobStore/save_load".into()
    }
    fn space(&self, tier: Tier) -> String {
        format!(
            "variants c{{0,3}}/k{{0,2}}/b6, c0/k0/b7, c0/k1/b4/w20-40, c0/k3/b8/w32-64 and the three non-default presets x (all record lists of length <= {} over R ∪ patterned lists); oracle: load_from_reader(save_to_writer(s)) answers get/contains/size/len like s on ids 0..=n+1 (s itself is judged by the builder subject)",
            tier.pick(2, 3)
        )
    }
    fn cases(&self, tier: Tier, f: &mut dyn FnMut(BulkCase) -> bool) {
        // the last six were appended by the coverage audit: the header must carry block size and BOTH index widths
        for v in [
            "c0/k0/b6",
            "c0/k2/b6",
            "c3/k0/b6",
            "c3/k2/b6",
            "c0/k0/b7",
            "c0/k1/b4/w20-40",
            "c0/k3/b8/w32-64",
            "preset:performance_optimized",
            "preset:compression_optimized",
            "preset:security_optimized",
        ] {
            if !for_lists(tier, tier.pick(2, 3), true, &mut |l| f(BulkCase { variant: v.to_string(), list: l })) {
                return;
            }
        }
    }
    fn run(&self, case: &BulkCase) -> Outcome {
        let input = case.list.expand();
        let built = match build_zip_offset(&case.variant, &input) {
            Ok(b) => b,
            Err(e) => return Outcome::skip(&format!("builder_refused:{}", zverif::core::truncate(&e, 40))),
        };
        let _ = built;
        // build again as the concrete type (Built erases it)
        let s = (|| -> R<ZipOffsetBlobStore> {
            let mut b = ZipOffsetBlobStoreBuilder::with_config(zo_config(&case.variant)?).map_err(|e| e.to_string())?;
            for d in &input {
                b.add_record(d).map_err(|e| e.to_string())?;
            }
            b.finish().map_err(|e| e.to_string())
        })();
        let mut s = match s {
            Ok(s) => s,
            Err(e) => return Outcome::skip(&format!("builder_refused:{}", zverif::core::truncate(&e, 40))),
        };
        let mut bytes = Vec::new();
        if let Err(e) = s.save_to_writer(&mut bytes) {
            return Outcome::skip(&format!("save_refused:{}", zverif::core::truncate(&e.to_string(), 40)));
        }
        let mut loaded = match ZipOffsetBlobStore::load_from_reader(&mut std::io::Cursor::new(&bytes)) {
            Ok(l) => l,
            Err(e) => return enumr::fail("save_load", "load_err", format!("load_from_reader(save_to_writer(s)) = Err({e}) for a store with len() = {}", BlobStore::len(&s))),
        };
        let n = BlobStore::len(&s) as u32;
        let (ls, ll) = (StoreLike::len(&mut s), StoreLike::len(&mut loaded));
        if ls != ll {
            return enumr::fail("save_load", "len_differs", format!("saved store has len() = {ls}, loaded store {ll}"));
        }
        for id in (0..n.saturating_add(2)).chain([u32::MAX]) {
            let (a, b) = (StoreLike::get(&mut s, id), StoreLike::get(&mut loaded, id));
            if a.as_ref().ok() != b.as_ref().ok() {
                return enumr::fail("save_load", "get_differs", format!("get({id}): saved store {:?}, loaded store {:?}", a.map(|x| brief(&x)), b.map(|x| brief(&x))));
            }
            let (a, b) = (StoreLike::contains(&mut s, id), StoreLike::contains(&mut loaded, id));
            if a != b {
                return enumr::fail("save_load", "contains_differs", format!("contains({id}): saved {a}, loaded {b}"));
            }
            let (a, b) = (StoreLike::size(&mut s, id).ok().flatten(), StoreLike::size(&mut loaded, id).ok().flatten());
            if a != b {
                return enumr::fail("save_load", "size_differs", format!("size({id}): saved {:?}, loaded {:?}", a, b));
            }
        }
        if n == 0 {
            // nothing to compare: the builder produced an empty store (see the builder subject)
            Outcome::trivial(if input.is_empty() { "empty_input" } else { "empty_store_from_nonempty_input" })
        } else {
            Outcome::pass(&case.list.class())
        }
    }
}

fn register_e2(reg: &mut zverif::Registry) {
    let mut zo = Vec::new();
    for c in [0, 3] {
        for k in 0..=3 {
            for b in [6, 7] {
                zo.push(format!("c{c}/k{k}/b{b}"));
            }
        }
    }
    // appended by the coverage audit: the three other presets of the config type (non-default offset/sample widths, 128
    // records per block, enable_simd = false), the extreme block sizes, tiny and maximal index widths, the bulk entry point
    for v in [
        "preset:performance_optimized",
        "preset:compression_optimized",
        "preset:security_optimized",
        "c0/k2/b6/nosimd",
        "c0/k2/b6/add_records",
        "c0/k0/b4",
        "c0/k0/b8",
        "c0/k0/b6/w8-16",
        "c0/k3/b6/w32-64",
        "c3/k3/b5/w12-24",
        "c0/k0/b6/w9-17",
    ] {
        zo.push(v.to_string());
    }
    reg.add(Enum(BulkSpec {
        name: "ZipOffsetBlobStoreBuilder".into(),
        variants: zo,
        small_max: (2, 3),
        patterns: true,
        build: build_zip_offset,
        space_note: "variant = compress level / checksum level / log2 block units; record i == input i, ids >= n absent",
    }));
    reg.add(Enum(BulkSpec {
        name: "BatchZipOffsetBlobStoreBuilder".into(),
        variants: vec![
            "c0/k0/b6/n1".into(),
            "c0/k2/b6/n4".into(),
            "c3/k2/b7/n4".into(),
            // appended by the coverage audit: batch sizes that do not divide the list lengths, one larger than a block, 0
            "c0/k0/b6/n2".into(),
            "c0/k0/b6/n3".into(),
            "c0/k0/b6/n8".into(),
            "c0/k0/b6/n100".into(),
            "c0/k2/b6/n0".into(),
            "preset:performance_optimized/n64".into(),
        ],
        small_max: (2, 3),
        patterns: true,
        build: build_zip_offset_batch,
        space_note: "variant = .../batch size",
    }));
    reg.add(Enum(BulkSpec {
        name: "SimpleZipBlobStore::build_from".into(),
        variants: vec!["default".into(), "frag1-2".into(), "frag2-4/delim=a,space".into(), "frag3-3".into(), "frag8-1024/delim=none".into()],
        small_max: (3, 4),
        patterns: true,
        build: build_simple_zip,
        space_note: "variant = fragmentation config",
    }));
    reg.add(Enum(BulkSpec {
        name: "MixedLenBlobStore::build_from".into(),
        variants: vec![
            "auto".into(),
            "fixed_len=0".into(),
            "fixed_len=1".into(),
            "fixed_len=2".into(),
            "fixed_len=4".into(),
            "fixed_len=8".into(),
            "fixed_len=64".into(),
            "fixed_len=5".into(),
            // appended by the coverage audit: the record lengths of the audit patterns (all / most records fixed)
            "fixed_len=1040".into(),
            "fixed_len=20".into(),
            "fixed_len=70000".into(),
        ],
        small_max: (3, 4),
        patterns: true,
        build: build_mixed_len,
        space_note: "auto = build_from (dominant length; ties broken by HashMap order), fixed_len=L = build_from_with_fixed_len (every length of R, the pattern lengths 4/8 and an unused one)",
    }));
    reg.add(Enum(BulkSpec {
        name: "ZeroLengthBlobStore::finish".into(),
        variants: vec!["finish".into()],
        small_max: (3, 4),
        patterns: true,
        build: build_zero_length,
        space_note: "only lists of empty records are accepted (others skipped)",
    }));
    for (name, variants) in [
        // the config decides whether len() works at all (it is read from the optional statistics): one subject per setting
        (
            "NestLoudsTrieBlobStore/bulk[statistics=on]",
            vec![
                "builder[default]/sorted_keys",
                "builder[default]/unsorted_keys",
                "build_from_key_value_pairs[enable_statistics]/unsorted_keys",
                "builder[default]/add_batch+finish_with_progress/unsorted_keys",
                "put_batch_with_keys[default]/unsorted_keys",
            ],
        ),
        ("NestLoudsTrieBlobStore/bulk[statistics=off]", vec!["builder[memory_optimized]/unsorted_keys", "build_from_key_value_pairs[default]/unsorted_keys"]),
    ] {
        reg.add(Enum(BulkSpec {
            name: name.into(),
            variants: variants.into_iter().map(String::from).collect(),
            small_max: (2, 3),
            patterns: true,
            build: build_trie,
            space_note: "record i is added under a unique key; where the builder sorts by key the ids are judged as a permutation and get_by_key pins record <-> input",
        }));
    }
    reg.add(Enum(ZipOffsetSaveLoad));
}

// ---------------------------------------------------------------------------------------------
// E1 — builder histories: the incremental builders have state of their own (pending batch, counters, the order of
// entries) that the bulk subjects only ever drive as add ... add, finish.  Here every sequence of builder calls is a
// history; after EVERY step: the id returned by add_record is the insertion index, len()/is_empty() count the records
// added, and a builder driven by the same calls and finished yields a store with exactly those records under those ids.

#[derive(Clone, PartialEq, Eq)]
pub enum BOp {
    Add(Rec),
    /// BatchZipOffsetBlobStoreBuilder::flush_batch by hand
    FlushBatch,
    /// ZipOffsetBlobStoreBuilder::add_records of two records
    AddRecords(Rec, Rec),
    /// ZipOffsetBlobStoreBuilder::reserve(3)
    Reserve,
    /// trie builder: add_batch of two entries
    AddBatch(Rec, Rec),
    /// trie builder: sort_entries
    SortEntries,
}

impl fmt::Debug for BOp {
    fn fmt(&self, f: &mut fmt::Formatter<'_>) -> fmt::Result {
        match self {
            BOp::Add(r) => write!(f, "Add({:?})", r),
            BOp::FlushBatch => write!(f, "FlushBatch"),
            BOp::AddRecords(a, b) => write!(f, "AddRecords({:?},{:?})", a, b),
            BOp::Reserve => write!(f, "Reserve"),
            BOp::AddBatch(a, b) => write!(f, "AddBatch({:?},{:?})", a, b),
            BOp::SortEntries => write!(f, "SortEntries"),
        }
    }
}

#[derive(Clone, Copy, PartialEq, Eq, Debug)]
pub enum BKind {
    Batch(usize),
    Plain,
    /// NestLoudsTrieBlobStoreBuilder; true = memory_optimized-like config without batch optimisation (insertion order kept)
    Trie(bool),
}

pub enum LiveBuilder {
    Batch(BatchZipOffsetBlobStoreBuilder),
    Plain(ZipOffsetBlobStoreBuilder),
    Trie(NestLoudsTrieBlobStoreBuilder<RankSelectInterleaved256>),
}

pub struct BuilderHist {
    pub name: String,
    pub kind: BKind,
    /// ZipOffset configuration, see `zo_config`
    pub variant: &'static str,
    pub records: Vec<Rec>,
    pub depth: (usize, usize),
}

pub struct BSt {
    live: LiveBuilder,
    script: Vec<BOp>,
    /// records added so far, in insertion order
    model: Vec<Vec<u8>>,
}

impl BuilderHist {
    fn fresh(&self) -> R<LiveBuilder> {
        Ok(match self.kind {
            BKind::Batch(n) => LiveBuilder::Batch(BatchZipOffsetBlobStoreBuilder::with_config(zo_config(self.variant)?, n).map_err(|e| e.to_string())?),
            BKind::Plain => LiveBuilder::Plain(ZipOffsetBlobStoreBuilder::with_config(zo_config(self.variant)?).map_err(|e| e.to_string())?),
            BKind::Trie(keep_order) => {
                let cfg = if keep_order { TrieBlobStoreConfig { enable_batch_optimization: false, ..TrieBlobStoreConfig::default() } } else { TrieBlobStoreConfig::default() };
                LiveBuilder::Trie(NestLoudsTrieBlobStoreBuilder::new(cfg).map_err(|e| e.to_string())?)
            }
        })
    }
    /// apply one call to a builder; `n` = number of records added before it.  Returns the ids handed out (where the
    /// builder hands out ids) or Err = refused.
    fn step(b: &mut LiveBuilder, op: &BOp, n: usize) -> R<Option<Vec<u32>>> {
        match (b, op) {
            (LiveBuilder::Batch(b), BOp::Add(r)) => b.add_record(&r.bytes()).map(|id| Some(vec![id])).map_err(|e| e.to_string()),
            (LiveBuilder::Batch(b), BOp::FlushBatch) => b.flush_batch().map(|_| None).map_err(|e| e.to_string()),
            (LiveBuilder::Plain(b), BOp::Add(r)) => b.add_record(&r.bytes()).map(|id| Some(vec![id])).map_err(|e| e.to_string()),
            (LiveBuilder::Plain(b), BOp::AddRecords(x, y)) => b.add_records([x.bytes(), y.bytes()]).map(Some).map_err(|e| e.to_string()),
            (LiveBuilder::Plain(b), BOp::Reserve) => b.reserve(3).map(|_| None).map_err(|e| e.to_string()),
            (LiveBuilder::Trie(b), BOp::Add(r)) => b.add(&trie_key(n, false), &r.bytes()).map(|_| None).map_err(|e| e.to_string()),
            (LiveBuilder::Trie(b), BOp::AddBatch(x, y)) => b.add_batch(vec![(trie_key(n, false), x.bytes()), (trie_key(n + 1, false), y.bytes())]).map(|_| None).map_err(|e| e.to_string()),
            (LiveBuilder::Trie(b), BOp::SortEntries) => {
                b.sort_entries();
                Ok(None)
            }
            _ => Err("operation not offered by this builder".into()),
        }
    }
    fn added(op: &BOp) -> Vec<Vec<u8>> {
        match op {
            BOp::Add(r) => vec![r.bytes()],
            BOp::AddRecords(a, b) | BOp::AddBatch(a, b) => vec![a.bytes(), b.bytes()],
            _ => vec![],
        }
    }
    fn len_of(b: &LiveBuilder) -> (usize, bool) {
        match b {
            LiveBuilder::Batch(b) => (b.len(), b.is_empty()),
            LiveBuilder::Plain(b) => (b.len(), b.is_empty()),
            LiveBuilder::Trie(b) => (b.len(), b.is_empty()),
        }
    }
}

impl SeqSpec for BuilderHist {
    type Op = BOp;
    type St = BSt;
    fn name(&self) -> String {
        self.name.clone()
    }
    fn depth(&self, tier: Tier) -> usize {
        tier.pick(self.depth.0, self.depth.1)
    }
    fn bound(&self, tier: Tier) -> String {
        format!(
            "all sequences of <= {} builder calls from {{add(r) r in {:?}{}}} on {:?} (config {}); after every step: the ids returned are the insertion indices, len()/is_empty() == records added, and the same calls on a second builder followed by finish() give a store with len == n and record i == the i-th record added (get, contains, size, get_batch, iter_ids; ids n, n+1, u32::MAX absent{})",
            self.depth(tier),
            self.records,
            match self.kind {
                BKind::Batch(_) => "; flush_batch()",
                BKind::Plain => "; add_records([ab,e]); reserve(3)",
                BKind::Trie(_) => "; add_batch([ab,e]); sort_entries()",
            },
            self.kind,
            self.variant,
            if matches!(self.kind, BKind::Trie(_)) { "; keyed builder: record i is added under a unique key, get_by_key pins record <-> key, ids are judged as a permutation where the builder sorts" } else { "" }
        )
    }
    fn init(&self, _scratch: &Path) -> Result<BSt, Fail> {
        Ok(BSt { live: self.fresh().map_err(|e| Fail::new("construct", e))?, script: Vec::new(), model: Vec::new() })
    }
    fn ops(&self, _st: &BSt) -> Vec<BOp> {
        let mut v: Vec<BOp> = self.records.iter().map(|r| BOp::Add(*r)).collect();
        match self.kind {
            BKind::Batch(_) => v.push(BOp::FlushBatch),
            BKind::Plain => {
                v.push(BOp::AddRecords(AB, E));
                v.push(BOp::Reserve);
            }
            BKind::Trie(_) => {
                v.push(BOp::AddBatch(AB, E));
                v.push(BOp::SortEntries);
            }
        }
        v
    }
    fn apply(&self, st: &mut BSt, op: &BOp) -> Result<(), Fail> {
        let n = st.model.len();
        match BuilderHist::step(&mut st.live, op, n) {
            Err(_) => {} // refused: nothing may have changed (the observers check the counters)
            Ok(ids) => {
                let added = BuilderHist::added(op);
                if let Some(ids) = ids {
                    let want: Vec<u32> = (n as u32..(n + added.len()) as u32).collect();
                    if ids != want {
                        return Err(failc("builder_id", "not_insertion_index", format!("{:?} returned ids {:?}, {} records were added before: expected {:?}", op, ids, n, want)));
                    }
                }
                st.model.extend(added);
                st.script.push(op.clone());
            }
        }
        Ok(())
    }
    fn observe(&self, st: &mut BSt, h: &mut DefaultHasher) -> Result<(), Fail> {
        st.script.iter().map(|o| format!("{:?}", o)).collect::<Vec<_>>().hash(h);
        let n = st.model.len();
        let (l, e) = BuilderHist::len_of(&st.live);
        if l != n {
            return Err(failc("builder_len", if l < n { "short" } else { "long" }, format!("builder.len() = {l}, {n} records were added")));
        }
        if e != (n == 0) {
            return Err(failc("builder_len", "is_empty", format!("builder.is_empty() = {e}, {n} records were added")));
        }
        // the same calls on a second builder, then finish()
        let mut b2 = self.fresh().map_err(|e| Fail::new("construct", e))?;
        let mut k = 0usize;
        let mut sorted = false;
        for op in &st.script {
            if BuilderHist::step(&mut b2, op, k).is_err() {
                return Err(Fail::new("harness", format!("replaying {:?} on a second builder was refused", op)));
            }
            k += BuilderHist::added(op).len();
            sorted |= *op == BOp::SortEntries;
        }
        let built = match b2 {
            LiveBuilder::Batch(b) => b.finish().map(|s| Built { store: boxed(s), ids: None, keys: None, may_reorder: false }),
            LiveBuilder::Plain(b) => b.finish().map(|s| Built { store: boxed(s), ids: None, keys: None, may_reorder: false }),
            LiveBuilder::Trie(b) => {
                let keep_order = matches!(self.kind, BKind::Trie(true)) && !sorted;
                b.finish().map(|s| Built { store: boxed(s), ids: None, keys: Some((0..n).map(|i| trie_key(i, false)).collect()), may_reorder: !keep_order })
            }
        };
        match built {
            // finish refused (e.g. the offset index cannot hold the content): nothing to judge
            Err(_) => Ok(()),
            Ok(mut b) => match judge_bulk(&mut b, &st.model, String::new()) {
                Outcome::Fail(f) => Err(f),
                _ => Ok(()),
            },
        }
    }
}

fn register_builder_histories(reg: &mut zverif::Registry) {
    for n in [1usize, 2, 3, 8] {
        reg.add(Seq(BuilderHist { name: format!("BatchZipOffsetBlobStoreBuilder/history[batch={n},c0/k0/b6]"), kind: BKind::Batch(n), variant: "c0/k0/b6", records: vec![E, AB, P4000], depth: (5, 7) }));
    }
    reg.add(Seq(BuilderHist { name: "BatchZipOffsetBlobStoreBuilder/history[batch=2,c3/k2/b6]".into(), kind: BKind::Batch(2), variant: "c3/k2/b6", records: vec![E, AB, C300], depth: (4, 6) }));
    reg.add(Seq(BuilderHist { name: "BatchZipOffsetBlobStoreBuilder/history[batch=0,c0/k2/b6]".into(), kind: BKind::Batch(0), variant: "c0/k2/b6", records: vec![E, AB], depth: (4, 6) }));
    reg.add(Seq(BuilderHist { name: "ZipOffsetBlobStoreBuilder/history[c0/k2/b6]".into(), kind: BKind::Plain, variant: "c0/k2/b6", records: vec![E, AB, P4000], depth: (4, 6) }));
    reg.add(Seq(BuilderHist { name: "ZipOffsetBlobStoreBuilder/history[c3/k0/b6]".into(), kind: BKind::Plain, variant: "c3/k0/b6", records: vec![E, AB, C300], depth: (3, 5) }));
    reg.add(Seq(BuilderHist { name: "NestLoudsTrieBlobStoreBuilder/history[default]".into(), kind: BKind::Trie(false), variant: "-", records: vec![E, AB, ZZ], depth: (3, 5) }));
    reg.add(Seq(BuilderHist { name: "NestLoudsTrieBlobStoreBuilder/history[insertion_order]".into(), kind: BKind::Trie(true), variant: "-", records: vec![E, AB, ZZ], depth: (3, 5) }));
}

fn main() {
    zverif::main_with("C03", |reg, _tier| {
        register_e1(reg);
        register_e2(reg);
        register_e1_audit(reg);
        register_builder_histories(reg);
    });
}
