//! Memory / search families: copy, fill, compare, byte search, substring search, set search.

use crate::common::*;
use std::cmp::Ordering;
use zverif::{Outcome, Tier};

fn tailc(n: usize) -> &'static str {
    match n % 16 {
        0 => "n%16=0",
        1..=7 => "n%16=1-7",
        8 => "n%16=8",
        _ => "n%16=9-15",
    }
}

// ------------------------------------------------------------------------------------------------
// copy

pub type CopyFn = Box<dyn Fn(&[u8], &mut [u8]) -> Result<(), String>>;

/// `aligned_only`: the entry point is only offered for 64-byte aligned buffers; `max_len`: documented size limit
pub fn copy_spec(name: &str, f: CopyFn, aligned_only: bool, max_len: Option<usize>) -> Spec {
    let gen = move |tier: Tier, out: &mut dyn FnMut(Case) -> bool| {
        for n in all_lens() {
            let pairs: Vec<(u8, u8)> = if aligned_only {
                if n % 64 == 0 {
                    vec![(0, 0), (G, G)]
                } else {
                    vec![(0, 0)]
                }
            } else {
                pair_aligns(tier)
            };
            for (a, b) in pairs {
                for c in CONTENTS {
                    if !out(Case { n, a, b, c, ..Default::default() }) {
                        return;
                    }
                }
            }
        }
    };
    let run = move |case: &Case| -> Outcome {
        let n = case.n as usize;
        let want = content(case.c, n);
        let src = place(0, case.a, &want);
        let dst = arena().buf(1, case.b, n);
        dst.fill(0x5A);
        match f(src, dst) {
            Err(e) => {
                if max_len.map(|m| n > m).unwrap_or(false) {
                    return Outcome::skip("refused: documented size limit");
                }
                return fail("copy_refused", lc(n), format!("copy of {n} bytes (src%64={}, dst%64={}) returned Err: {e}", case.a, case.b));
            }
            Ok(()) => {}
        }
        if dst != &want[..] {
            let p = dst.iter().zip(&want).position(|(x, y)| x != y).unwrap();
            return fail(
                "copy_bytes",
                format!("wrong_bytes/{}", tailc(n)),
                format!("n={n} src%64={} dst%64={} content={}: dst[{p}]={:#04x}, expected {:#04x} (first mismatch)", case.a, case.b, cname(case.c), dst[p], want[p]),
            );
        }
        if src != &want[..] {
            return fail("copy_src_modified", lc(n), format!("n={n}: source changed by the copy"));
        }
        if !arena().zone_intact(1, case.b, n) || !arena().zone_intact(0, case.a, n) {
            return fail("copy_out_of_bounds_write", lc(n), format!("n={n} src%64={} dst%64={}: bytes outside the destination slice were modified", case.a, case.b));
        }
        if n == 0 {
            Outcome::trivial("n=0")
        } else {
            Outcome::pass(&format!("{}/{}", lc(n), cname(case.c)))
        }
    };
    Spec {
        name: name.to_string(),
        space: format!(
            "copy: every length 0..=260 x {} x contents {{ascending, all>=0x80, embedded NUL}}; oracle: dst==src, src unchanged, 80-byte canary zones around both slices intact; guard-ended slices fault on over-read/over-write",
            if aligned_only { "placement (src,dst)%64=(0,0) (+ guard-ended when n%64==0); entry point refuses unaligned buffers" } else { "src alignment {quick: 0,1,3,15,16,31,33,63; thorough: 0..63} x dst alignment {0,1,15,63} + (guard-ended, guard-ended)" }
        ),
        gen: Box::new(gen),
        run: Box::new(run),
        isolate: false,
        fault_class: default_fault_class,
    }
}

// ------------------------------------------------------------------------------------------------
// fill

pub type FillFn = Box<dyn Fn(&mut [u8], u8)>;

pub fn fill_spec(name: &str, f: FillFn) -> Spec {
    let gen = move |tier: Tier, out: &mut dyn FnMut(Case) -> bool| {
        for n in all_lens() {
            for a in one_aligns(tier) {
                if !out(Case { n, a, ..Default::default() }) {
                    return;
                }
            }
        }
    };
    let run = move |case: &Case| -> Outcome {
        let n = case.n as usize;
        for (i, v) in [0x00u8, 0x01, 0x7F, 0x80, 0xFF].into_iter().enumerate() {
            arena().progress(i as u64);
            let dst = arena().buf(0, case.a, n);
            dst.fill(!v);
            f(dst, v);
            if let Some(p) = dst.iter().position(|&x| x != v) {
                return fail("fill_bytes", format!("wrong_bytes/{}", tailc(n)), format!("n={n} align={} value={v:#04x}: dst[{p}]={:#04x}", case.a, dst[p]));
            }
            if !arena().zone_intact(0, case.a, n) {
                return fail("fill_out_of_bounds_write", lc(n), format!("n={n} align={} value={v:#04x}: bytes outside the slice were modified", case.a));
            }
        }
        if n == 0 {
            Outcome::trivial("n=0")
        } else {
            Outcome::pass(lc(n))
        }
    };
    Spec {
        name: name.to_string(),
        space: "fill: every length 0..=260 x alignment {quick: 17 values; thorough: 0..63} + guard-ended x values {00,01,7F,80,FF}; oracle: all bytes == value, canary zones intact".into(),
        gen: Box::new(gen),
        run: Box::new(run),
        isolate: false,
        fault_class: default_fault_class,
    }
}

// ------------------------------------------------------------------------------------------------
// three-way compare (result reduced to its sign) and equality

pub type CmpFn = Box<dyn Fn(&[u8], &[u8]) -> i32>;
pub type CmpOracle = fn(&[u8], &[u8]) -> Ordering;

pub fn lexicographic(a: &[u8], b: &[u8]) -> Ordering {
    a.cmp(b)
}
/// the definition `string::simd_search::sse42_strcmp` implements and its own tests assert: length first
pub fn length_then_lexicographic(a: &[u8], b: &[u8]) -> Ordering {
    a.len().cmp(&b.len()).then_with(|| a.cmp(b))
}
/// equality reported as 0 / non-zero (bool entry points)
pub fn equality(a: &[u8], b: &[u8]) -> Ordering {
    if a == b {
        Ordering::Equal
    } else {
        Ordering::Greater
    }
}

/// `text`: buffers must be valid UTF-8 (entry point takes &str).  `eq_only`: only equal/unequal is compared.
pub fn cmp_spec(name: &str, f: CmpFn, oracle: CmpOracle, text: bool, eq_only: bool, what: &str) -> Spec {
    let gen = move |tier: Tier, out: &mut dyn FnMut(Case) -> bool| {
        for n in all_lens() {
            for (a, b) in pair_aligns(tier) {
                for c in CONTENTS {
                    for v in [0u8, 1] {
                        if v == 1 && n == 0 {
                            continue;
                        }
                        if !out(Case { n, a, b, c, v, ..Default::default() }) {
                            return;
                        }
                    }
                }
            }
        }
    };
    let run = move |case: &Case| -> Outcome {
        let n = case.n as usize;
        let base = if text { content_str(case.c, n) } else { content(case.c, n) };
        let norm = |x: i32| if eq_only { (x != 0) as i32 } else { sign(x) };
        let check = |x: &[u8], y: &[u8], what: &str, p: usize| -> Option<Outcome> {
            let got = norm(f(x, y));
            let want = norm(ord_sign(oracle(x, y)));
            if got != want {
                let kind = if case.v == 0 { "samelen" } else { "difflen" };
                let hi = if p < x.len().min(y.len()) && (x[p] >= 0x80) != (y[p] >= 0x80) { "/across0x80" } else { "" };
                return Some(fail(
                    "compare_sign",
                    format!("wrong_sign/{kind}{hi}"),
                    format!("{what}: len {} vs {} (a%64={}, b%64={}, content={}) first difference at {p}: got sign {got}, scalar definition says {want}", x.len(), y.len(), case.a, case.b, cname(case.c)),
                ));
            }
            None
        };
        // a differing byte that keeps the buffer valid UTF-8 when `text`
        let flip = |b: u8, strong: bool| -> u8 {
            if text {
                if b >= 0xC0 {
                    b + 1
                } else {
                    b ^ 1
                }
            } else if strong {
                b ^ 0x80
            } else {
                b ^ 0x01
            }
        };
        if case.v == 0 {
            let a = place(0, case.a, &base);
            let b = place(1, case.b, &base);
            if let Some(o) = check(a, b, "equal buffers", n) {
                return o;
            }
            for p in 0..n {
                arena().progress(p as u64);
                // (i) a single differing byte, sign bit flipped for raw buffers
                b[p] = flip(base[p], true);
                if let Some(o) = check(a, b, "single differing byte", p).or_else(|| check(b, a, "single differing byte (swapped)", p)) {
                    return o;
                }
                // (ii) low-bit difference at p, every later byte differs too (first difference must decide)
                if !text {
                    b[p] = flip(base[p], false);
                    for q in p + 1..n {
                        b[q] = !base[q];
                    }
                    if let Some(o) = check(a, b, "first of many differing bytes", p).or_else(|| check(b, a, "first of many differing bytes (swapped)", p)) {
                        return o;
                    }
                    b[p + 1..].copy_from_slice(&base[p + 1..]);
                }
                b[p] = base[p];
            }
        } else {
            let a = place(0, case.a, &base);
            let mut ms = vec![0usize, n / 2, n.saturating_sub(16), n - 1];
            ms.sort();
            ms.dedup();
            for m in ms {
                if m >= n || (text && std::str::from_utf8(&base[..m]).is_err()) {
                    continue;
                }
                arena().progress(m as u64);
                let b = place(1, case.b, &base[..m]);
                if let Some(o) = check(a, b, "proper prefix", m).or_else(|| check(b, a, "proper prefix (swapped)", m)) {
                    return o;
                }
                let mut ps = vec![0usize, m / 2, m.saturating_sub(1)];
                ps.dedup();
                for p in ps {
                    if p >= m {
                        continue;
                    }
                    b[p] = flip(base[p], true);
                    if let Some(o) = check(a, b, "shorter buffer with a differing byte", p).or_else(|| check(b, a, "shorter buffer with a differing byte (swapped)", p)) {
                        return o;
                    }
                    b[p] = base[p];
                }
            }
        }
        if n == 0 {
            Outcome::trivial("n=0")
        } else {
            Outcome::pass(&format!("{}/{}/{}", lc(n), cname(case.c), if case.v == 0 { "samelen" } else { "difflen" }))
        }
    };
    Spec {
        name: name.to_string(),
        space: format!(
            "compare ({what}): every length 0..=260 x src alignment {{quick: 8 values; thorough: 0..63}} x second-buffer alignment {{0,1,15,63}} + both guard-ended x contents {{ascending, >=0x80, embedded NUL}}{} x variant {{same length: equal + differing byte at EVERY position (bit7 flip; low-bit flip followed by all-later-bytes-differ), both argument orders | different length: second = prefix of length 0, n/2, n-16, n-1 with/without a differing byte}}; oracle: sign of the result == scalar definition",
            if text { " (valid UTF-8 variants)" } else { "" }
        ),
        gen: Box::new(gen),
        run: Box::new(run),
        isolate: false,
        fault_class: default_fault_class,
    }
}

// ------------------------------------------------------------------------------------------------
// byte search

pub type FindByteFn = Box<dyn Fn(&[u8], u8) -> Option<usize>>;

pub fn findbyte_spec(name: &str, f: FindByteFn) -> Spec {
    let gen = move |tier: Tier, out: &mut dyn FnMut(Case) -> bool| {
        for n in all_lens() {
            for a in one_aligns(tier) {
                for c in CONTENTS {
                    for v in [0u8, 1] {
                        if !out(Case { n, a, c, v, ..Default::default() }) {
                            return;
                        }
                    }
                }
            }
        }
    };
    let run = move |case: &Case| -> Outcome {
        let n = case.n as usize;
        let bad = |hay: &[u8], needle: u8, got: Option<usize>, want: Option<usize>| -> Outcome {
            let kind = if want.is_none() { "phantom" } else { "wrong_or_missed" };
            fail(
                "find_byte",
                kind,
                format!("len={} align={} content={} needle={needle:#04x}: got {got:?}, scalar definition says {want:?}", hay.len(), case.a, cname(case.c)),
            )
        };
        if case.v == 0 {
            // natural contents: every byte of the haystack as needle (first occurrence), plus absent bytes
            let hay = place(0, case.a, &content(case.c, n));
            for p in 0..n {
                arena().progress(p as u64);
                let needle = hay[p];
                let got = f(hay, needle);
                let want = hay.iter().position(|&b| b == needle);
                if got != want {
                    return bad(hay, needle, got, want);
                }
            }
            let mut absent = 0;
            for needle in [0xFFu8, 0x00, 0x7F, 0x80, 0x60, 0xFE, 0x01] {
                if !hay.contains(&needle) {
                    absent += 1;
                    let got = f(hay, needle);
                    if got.is_some() {
                        return bad(hay, needle, got, None);
                    }
                }
            }
            if n == 0 {
                return Outcome::trivial("n=0");
            }
            Outcome::pass(&format!("{}/{}/natural/absent{}", lc(n), cname(case.c), absent.min(1)))
        } else {
            // planted: constant filler, needle at EVERY position (and again at the last byte)
            let filler = match case.c {
                C_ASC => 0x61u8,
                C_HIGH => 0x9C,
                _ => 0x00,
            };
            for needle in [0x00u8, 0x80, 0xFF, 0x7F] {
                if needle == filler {
                    continue;
                }
                let hay = arena().buf(0, case.a, n);
                for p in 0..n {
                    arena().progress(p as u64);
                    hay.fill(filler);
                    hay[p] = needle;
                    hay[n - 1] = needle;
                    let got = f(hay, needle);
                    if got != Some(p) {
                        return bad(hay, needle, got, Some(p));
                    }
                }
                hay.fill(filler);
                let got = f(hay, needle);
                if got.is_some() {
                    return bad(hay, needle, got, None);
                }
            }
            if n == 0 {
                return Outcome::trivial("n=0");
            }
            Outcome::pass(&format!("{}/{}/planted", lc(n), cname(case.c)))
        }
    };
    Spec {
        name: name.to_string(),
        space: "byte search: every length 0..=260 x alignment {quick: 16 values; thorough: 0..63} + guard-ended x contents {ascending, >=0x80, embedded NUL} x variant {natural: every haystack byte as needle (first occurrence) + absent bytes | planted: constant filler {61,9C,00}, needle {00,80,FF,7F} at EVERY position plus a second occurrence at the end, and absent}; oracle: iter().position()".into(),
        gen: Box::new(gen),
        run: Box::new(run),
        isolate: false,
        fault_class: default_fault_class,
    }
}

// ------------------------------------------------------------------------------------------------
// substring search

pub type StrStrFn = Box<dyn Fn(&[u8], &[u8]) -> Option<usize>>;
pub type StrStrOracle = fn(&[u8], &[u8]) -> Option<usize>;

fn naive_find(h: &[u8], n: &[u8]) -> Option<usize> {
    if n.len() > h.len() {
        return None;
    }
    (0..=h.len() - n.len()).find(|&i| &h[i..i + n.len()] == n)
}
/// io::simd_memory::search contract (scalar_strstr): empty needle matches at 0
pub fn strstr_empty_matches(h: &[u8], n: &[u8]) -> Option<usize> {
    if n.is_empty() {
        Some(0)
    } else {
        naive_find(h, n)
    }
}
/// string::simd_search contract (asserted by its own tests): empty haystack or empty needle -> None
pub fn strstr_empty_none(h: &[u8], n: &[u8]) -> Option<usize> {
    if h.is_empty() || n.is_empty() {
        None
    } else {
        naive_find(h, n)
    }
}

pub const NEEDLE_LENS_Q: [u32; 12] = [0, 1, 2, 3, 4, 7, 8, 15, 16, 17, 32, 33];
pub const NEEDLE_LENS_T: [u32; 23] = [0, 1, 2, 3, 4, 5, 6, 7, 8, 9, 10, 11, 12, 13, 14, 15, 16, 17, 18, 31, 32, 33, 40];

/// (filler byte, needle) per content class
fn strstr_material(c: u8, k: usize, text: bool) -> (u8, Vec<u8>) {
    match c {
        // distinct: needle bytes do not occur in the filler
        0 => (b'x', (0..k).map(|i| if text { 0x21 + (i % 64) as u8 } else { 1 + i as u8 }).collect()),
        // prefix-repeat: filler 'a', needle a..ab (k-1 partial matches before every plant)
        1 => (b'a', (0..k).map(|i| if i + 1 == k { b'b' } else { b'a' }).collect()),
        // high bytes (raw) / NUL filler
        2 => {
            if text {
                (0x00, (0..k).map(|i| if i + 1 == k { 0x01 } else { 0x00 }).collect())
            } else {
                (0x80, vec![0xFF; k])
            }
        }
        _ => (0x00, (0..k).map(|i| if i + 1 == k { 0x01 } else { 0x00 }).collect()),
    }
}

pub fn strstr_cname(c: u8, text: bool) -> &'static str {
    match (c, text) {
        (0, _) => "distinct",
        (1, _) => "prefix_repeat",
        (2, false) => "high",
        _ => "nul",
    }
}

pub fn strstr_spec(name: &str, f: StrStrFn, oracle: StrStrOracle, text: bool, isolate: bool, fault_class: fn(&Case) -> String) -> Spec {
    let gen = move |tier: Tier, out: &mut dyn FnMut(Case) -> bool| {
        let lens = tier.pick(grid_lens(), all_lens());
        let ks: &[u32] = tier.pick(&NEEDLE_LENS_Q[..], &NEEDLE_LENS_T[..]);
        let ncont = if text { 3 } else { 4 };
        for &n in &lens {
            for a in few_aligns(tier) {
                for c in 0..ncont {
                    for &k in ks {
                        if !out(Case { n, a, c, k, ..Default::default() }) {
                            return;
                        }
                    }
                }
            }
        }
    };
    let run = move |case: &Case| -> Outcome {
        let n = case.n as usize;
        let k = case.k as usize;
        let (filler, needle_v) = strstr_material(case.c, k, text);
        let needle = place(1, if case.a == G { G } else { (case.a.wrapping_mul(3)) & 63 }, &needle_v);
        let hay = arena().buf(0, case.a, n);
        let bad = |hay: &[u8], got: Option<usize>, want: Option<usize>, what: &str| -> Outcome {
            let kind = if want.is_none() { "phantom" } else { "wrong_or_missed" };
            let kc = match k {
                0 => "k=0",
                1..=16 => "k<=16",
                _ => "k>16",
            };
            fail(
                "find_substring",
                format!("{kind}/{kc}"),
                format!("{what}: haystack len={} align={} filler={filler:#04x} needle={} : got {got:?}, scalar definition says {want:?}", hay.len(), case.a, zverif::util::brief(&needle_v)),
            )
        };
        // absent
        hay.fill(filler);
        arena().progress(u64::MAX - 1);
        let got = f(hay, needle);
        let want = oracle(hay, needle);
        if got != want {
            return bad(hay, got, want, "needle not planted");
        }
        let mut found = 0u32;
        if k >= 1 && n >= k {
            // planted at EVERY position
            for p in 0..=n - k {
                arena().progress(p as u64);
                hay.fill(filler);
                hay[p..p + k].copy_from_slice(&needle_v);
                let got = f(hay, needle);
                let want = oracle(hay, needle);
                if got != want {
                    return bad(hay, got, want, &format!("needle planted at {p}"));
                }
                found += want.is_some() as u32;
            }
            // truncated plant: only the first k-1 bytes of the needle fit at the end
            if k >= 2 {
                hay.fill(filler);
                let p = n - (k - 1);
                hay[p..].copy_from_slice(&needle_v[..k - 1]);
                arena().progress(u64::MAX - 2);
                let got = f(hay, needle);
                let want = oracle(hay, needle);
                if got != want {
                    return bad(hay, got, want, "needle truncated by the end of the haystack");
                }
            }
            // two plants: first occurrence must win
            if n >= 2 * k + 1 {
                hay.fill(filler);
                hay[1..1 + k].copy_from_slice(&needle_v);
                hay[n - k..].copy_from_slice(&needle_v);
                let got = f(hay, needle);
                let want = oracle(hay, needle);
                if got != want {
                    return bad(hay, got, want, "needle planted twice");
                }
            }
        }
        let kc = if k == 0 { "k=0" } else if k <= 16 { "k<=16" } else if k <= 32 { "k<=32" } else { "k>32" };
        if found == 0 {
            Outcome::trivial(&format!("{}/{kc}/absent_only", lc(n)))
        } else {
            Outcome::pass(&format!("{}/{kc}/{}", lc(n), strstr_cname(case.c, text)))
        }
    };
    Spec {
        name: name.to_string(),
        space: format!(
            "substring search: haystack length {{quick: 0..=40 + straddles of 48/64/80/96/128/160/192/256 + 260; thorough: every 0..=260}} x haystack alignment {{quick: 0,1,guard-ended; thorough: 16 values incl. guard-ended}} x material {{distinct needle in 'x' filler, needle a..ab in 'a' filler (partial matches), {}00..01 in NUL filler}} x needle length {{quick: 0,1,2,3,4,7,8,15,16,17,32,33; thorough: 0..=18,31,32,33,40}}; inner loop: needle absent, planted at EVERY position, truncated by the end, planted twice; oracle: first index of windows()==needle with the module's documented empty-needle rule",
            if text { "" } else { "FF..FF in 0x80 filler, " }
        ),
        gen: Box::new(gen),
        run: Box::new(run),
        isolate,
        fault_class,
    }
}

// ------------------------------------------------------------------------------------------------
// character-set search (first position of any member)

pub type AnyOfFn = Box<dyn Fn(&[u8], &[u8]) -> Option<usize>>;

pub const SET: [u8; 20] = [0x00, 0xFF, 0x80, 0x7F, b'A', b'z', 0x01, 0xFE, 0x81, 0x20, 0x0A, 0x2C, 0x3B, 0x09, 0xC3, 0xE2, 0xF0, 0x5C, 0x22, 0x27];

/// `kind` 0: the first `k` bytes of SET (contains 0x00, so NUL bytes of the haystack are members);
/// `kind` 1: the same without 0x00 — haystack NULs are then NON-members, which is what a kernel that treats
/// its zero-padded set register as part of the set gets wrong.
pub fn set_of(kind: u8, k: usize) -> Vec<u8> {
    if kind == 0 {
        SET[..k].to_vec()
    } else {
        SET[1..].iter().copied().chain([0x7Eu8]).take(k).collect()
    }
}

pub fn anyof_spec(name: &str, f: AnyOfFn) -> Spec {
    let gen = move |tier: Tier, out: &mut dyn FnMut(Case) -> bool| {
        let lens = tier.pick(grid_lens(), all_lens());
        let ks: Vec<u32> = tier.pick(vec![0, 1, 2, 3, 8, 15, 16, 17, 20], (0..=18).chain([20]).collect());
        for &n in &lens {
            for a in few_aligns(tier) {
                for c in CONTENTS {
                    for &k in &ks {
                        for v in [0u8, 1] {
                            if v == 1 && k < 2 {
                                continue;
                            }
                            for kind in [0u8, 1] {
                                if kind == 1 && k == 0 {
                                    continue;
                                }
                                if !out(Case { n, a, c, k, v, b: kind, ..Default::default() }) {
                                    return;
                                }
                            }
                        }
                    }
                }
            }
        }
    };
    let run = move |case: &Case| -> Outcome {
        let n = case.n as usize;
        let k = case.k as usize;
        let set_v: Vec<u8> = set_of(case.b, k);
        let set = place(1, if case.a == G { G } else { 5 }, &set_v);
        let base: Vec<u8> = content(case.c, n).into_iter().map(|b| if set_v.contains(&b) { 0x62 } else { b }).collect();
        let hay = place(0, case.a, &base);
        let scalar = |h: &[u8]| h.iter().position(|b| set_v.contains(b));
        let bad = |hay: &[u8], got: Option<usize>, want: Option<usize>, member: usize| -> Outcome {
            let kind = if want.is_none() { "phantom" } else { "wrong_or_missed" };
            fail(
                "find_any_of",
                format!("{kind}/{}/{}", if k > 16 { "set>16" } else { "set<=16" }, if member >= 16 { "member>=16" } else { "member<16" }),
                format!("haystack len={} align={} content={} set of {k} bytes, planted member index {member}: got {got:?}, scalar definition says {want:?}", hay.len(), case.a, cname(case.c)),
            )
        };
        arena().progress(u64::MAX - 1);
        let got = f(hay, set);
        if got != scalar(hay) {
            return bad(hay, got, scalar(hay), 0);
        }
        if k == 0 || n == 0 {
            return Outcome::trivial(if k == 0 { "empty_set" } else { "n=0" });
        }
        let member = if case.v == 0 { 0 } else { k - 1 };
        for p in 0..n {
            arena().progress(p as u64);
            hay[p] = set_v[member];
            // a later occurrence of another member must not win
            if p + 1 < n {
                hay[n - 1] = set_v[0];
            }
            let got = f(hay, set);
            let want = scalar(hay);
            if got != want {
                return bad(hay, got, want, member);
            }
            hay[p] = base[p];
            hay[n - 1] = base[n - 1];
        }
        Outcome::pass(&format!("{}/{}/{}", lc(n), if k > 16 { "set>16" } else { "set<=16" }, if case.v == 0 { "first_member" } else { "last_member" }))
    };
    Spec {
        name: name.to_string(),
        space: "character-set search: haystack length {quick: grid; thorough: every 0..=260} x alignment {quick: 0,1,guard-ended; thorough: 16 values} x contents {ascending, >=0x80, embedded NUL; set members replaced by 'b'} x set size {quick: 0,1,2,3,8,15,16,17,20; thorough: 0..=18,20} x set kind {with 0x00, without 0x00 (haystack NULs are non-members)} (set = prefix of 00,FF,80,7F,'A','z',01,FE,81,' ',LF,',',';',TAB,C3,E2,F0,'\\','\"',''') x planted member {first, last}; inner loop: absent, member planted at EVERY position with a later member at the end; oracle: position(|b| set.contains(b))".into(),
        gen: Box::new(gen),
        run: Box::new(run),
        isolate: false,
        fault_class: default_fault_class,
    }
}

// ------------------------------------------------------------------------------------------------
// character-set search returning ALL positions (string::simd_search::sse42_multi_search)

pub type MultiFn = Box<dyn Fn(&[u8], &[u8]) -> (Vec<usize>, Vec<u8>)>;

pub fn multi_spec(name: &str, f: MultiFn) -> Spec {
    let gen = move |tier: Tier, out: &mut dyn FnMut(Case) -> bool| {
        let ks: Vec<u32> = tier.pick(vec![0, 1, 2, 8, 15, 16, 17, 20], (0..=18).chain([20]).collect());
        for n in all_lens() {
            for a in few_aligns(tier) {
                for c in CONTENTS {
                    for &k in &ks {
                        for kind in [0u8, 1] {
                            if kind == 1 && k == 0 {
                                continue;
                            }
                            if !out(Case { n, a, c, k, b: kind, ..Default::default() }) {
                                return;
                            }
                        }
                    }
                }
            }
        }
    };
    let run = move |case: &Case| -> Outcome {
        let n = case.n as usize;
        let k = case.k as usize;
        let set_v: Vec<u8> = set_of(case.b, k);
        let set = place(1, if case.a == G { G } else { 5 }, &set_v);
        let scalar = |h: &[u8]| -> (Vec<usize>, Vec<u8>) {
            let mut p = Vec::new();
            let mut c = Vec::new();
            for (i, b) in h.iter().enumerate() {
                if set_v.contains(b) {
                    p.push(i);
                    c.push(*b);
                }
            }
            (p, c)
        };
        let mut hits = 0;
        // natural content (many members present), then sparse: members only every 17th byte
        for variant in 0..2 {
            let base: Vec<u8> = if variant == 0 {
                content(case.c, n)
            } else {
                content(case.c, n).into_iter().enumerate().map(|(i, b)| if i % 17 == 16 && k > 0 { set_v[(i / 17) % k] } else if set_v.contains(&b) { 0x62 } else { b }).collect()
            };
            let hay = place(0, case.a, &base);
            arena().progress(variant);
            let got = f(hay, set);
            let want = scalar(hay);
            if got != want {
                return fail(
                    "multi_search",
                    format!("{}/{}", if got.0.len() < want.0.len() { "missed" } else if got.0.len() > want.0.len() { "phantom" } else { "wrong" }, if k > 16 { "set>16" } else { "set<=16" }),
                    format!("haystack len={n} align={} content={} variant={variant} set of {k}: got {} positions {:?}.., scalar definition says {} positions {:?}..", case.a, cname(case.c), got.0.len(), &got.0[..got.0.len().min(6)], want.0.len(), &want.0[..want.0.len().min(6)]),
                );
            }
            hits += want.0.len();
        }
        if hits == 0 {
            Outcome::trivial(&format!("{}/no_hits", lc(n)))
        } else {
            Outcome::pass(&format!("{}/{}", lc(n), if k > 16 { "set>16" } else { "set<=16" }))
        }
    };
    Spec {
        name: name.to_string(),
        space: "all-positions set search: every haystack length 0..=260 x alignment {quick: 0,1,guard-ended; thorough: 16 values} x contents {ascending, >=0x80, embedded NUL} x set size {quick: 0,1,2,8,15,16,17,20; thorough: 0..=18,20} x {dense natural content, sparse: one member every 17th byte}; oracle: all (position, byte) with set.contains(byte)".into(),
        gen: Box::new(gen),
        run: Box::new(run),
        isolate: false,
        fault_class: default_fault_class,
    }
}

// ------------------------------------------------------------------------------------------------
// string hash (result must equal the scalar definition for every length / alignment)

pub type HashFn = Box<dyn Fn(&[u8], u64) -> u64>;
pub type HashOracle = fn(&[u8], u64) -> u64;

pub fn hash_spec(name: &str, f: HashFn, oracle: HashOracle, class: fn(usize) -> String, what: &str) -> Spec {
    let gen = move |tier: Tier, out: &mut dyn FnMut(Case) -> bool| {
        for n in all_lens() {
            for a in one_aligns(tier) {
                for c in CONTENTS {
                    if !out(Case { n, a, c, ..Default::default() }) {
                        return;
                    }
                }
            }
        }
    };
    let run = move |case: &Case| -> Outcome {
        let n = case.n as usize;
        let hay = place(0, case.a, &content_str(case.c, n));
        for (i, seed) in [0u64, 1, 0x9E37_79B9_7F4A_7C15, u64::MAX].into_iter().enumerate() {
            arena().progress(i as u64);
            let got = f(hay, seed);
            let want = oracle(hay, seed);
            if got != want {
                return fail("hash_value", class(n), format!("len={n} align={} content={} seed={seed:#x}: got {got:#018x}, scalar definition gives {want:#018x}", case.a, cname(case.c)));
            }
        }
        if n == 0 {
            Outcome::trivial("n=0")
        } else {
            Outcome::pass(&format!("{}/{}", lc(n), cname(case.c)))
        }
    };
    Spec {
        name: name.to_string(),
        space: format!("string hash ({what}): every length 0..=260 x alignment {{quick: 16 values; thorough: 0..63}} + guard-ended x valid-UTF-8 contents {{ASCII ascending, two-byte chars (bytes>=0x80), embedded NUL}} x seeds {{0,1,golden,MAX}}; oracle: the module's scalar definition"),
        gen: Box::new(gen),
        run: Box::new(run),
        isolate: false,
        fault_class: default_fault_class,
    }
}
