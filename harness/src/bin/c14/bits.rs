//! Bit-manipulation helpers (entropy::bit_ops) and histogram counting (FSE frequency analysis).

use crate::common::*;
use zipora::entropy::bit_ops::{BitOps, BitOpsConfig, CompressionBmi2Dispatcher, CompressionOperation, EntropyBitOps};
use zverif::{Outcome, Tier};

/// all 64-bit words with <= 2 bits set, all with <= 2 bits cleared, and 64 structured words
pub fn words() -> Vec<u64> {
    let mut v = vec![0u64];
    for i in 0..64 {
        v.push(1u64 << i);
    }
    for i in 0..64 {
        for j in i + 1..64 {
            v.push(1u64 << i | 1u64 << j);
        }
    }
    let few: Vec<u64> = v.clone();
    for w in few {
        v.push(!w);
    }
    v.extend(structured());
    v
}

pub fn structured() -> Vec<u64> {
    let mut s = vec![
        0x5555_5555_5555_5555,
        0xAAAA_AAAA_AAAA_AAAA,
        0x3333_3333_3333_3333,
        0xCCCC_CCCC_CCCC_CCCC,
        0x0F0F_0F0F_0F0F_0F0F,
        0xF0F0_F0F0_F0F0_F0F0,
        0x00FF_00FF_00FF_00FF,
        0xFF00_FF00_FF00_FF00,
        0x0000_FFFF_0000_FFFF,
        0xFFFF_0000_FFFF_0000,
        0x0000_0000_FFFF_FFFF,
        0xFFFF_FFFF_0000_0000,
        0x0123_4567_89AB_CDEF,
        0xFEDC_BA98_7654_3210,
        0x8000_0000_0000_0001,
        0x9E37_79B9_7F4A_7C15,
        0x0101_0101_0101_0101,
        0x8080_8080_8080_8080,
        0x7F7F_7F7F_7F7F_7F7F,
        0xFEFE_FEFE_FEFE_FEFE,
        0x0000_0001_0000_0001,
        0x8000_0000_8000_0000,
        0x0000_0000_8000_0000,
        0x0000_0001_0000_0000,
    ];
    // prefix masks (1<<k)-1 and their complements at the word/byte boundaries
    for k in [3u32, 7, 8, 9, 15, 16, 17, 24, 31, 32, 33, 40, 47, 48, 56, 57, 62, 63] {
        s.push((1u64 << k) - 1);
        s.push(!((1u64 << k) - 1));
    }
    // runs in the middle
    s.push(0x0000_0FFF_FFF0_0000);
    s.push(0x00FF_FFFF_FFFF_FF00);
    s.push(0x0000_00FF_FF00_0000);
    s.push(0x1248_1248_1248_1248);
    assert_eq!(s.len(), 64);
    s
}

fn ref_pdep(src: u64, mask: u64) -> u64 {
    let (mut r, mut k) = (0u64, 0);
    for i in 0..64 {
        if mask >> i & 1 == 1 {
            r |= (src >> k & 1) << i;
            k += 1;
        }
    }
    r
}
fn ref_pext(src: u64, mask: u64) -> u64 {
    let (mut r, mut k) = (0u64, 0);
    for i in 0..64 {
        if mask >> i & 1 == 1 {
            r |= (src >> i & 1) << k;
            k += 1;
        }
    }
    r
}
fn ref_popcount(x: u64) -> u32 {
    (0..64).filter(|i| x >> i & 1 == 1).count() as u32
}
fn ref_select(x: u64, k: u32, bits: u32) -> Option<u32> {
    let mut seen = 0;
    for i in 0..bits {
        if x >> i & 1 == 1 {
            if seen == k {
                return Some(i);
            }
            seen += 1;
        }
    }
    None
}
fn ref_reverse(x: u64, bits: u32) -> u64 {
    (0..bits).fold(0u64, |r, i| r | (x >> i & 1) << (bits - 1 - i))
}
fn ref_tz(x: u64, bits: u32) -> u32 {
    (0..bits).find(|&i| x >> i & 1 == 1).unwrap_or(bits)
}

const CHUNK: usize = 128;

pub fn software_config() -> BitOpsConfig {
    let mut c = BitOpsConfig::default();
    c.enable_bmi2 = false;
    c.enable_avx2 = false;
    c.enable_popcnt = false;
    c.software_fallback = true;
    c
}

/// ops: 0 unary (popcount, tz, reverse, bzhi, select all k) per chunk of words; 1 pdep/pext with mask = word k over sources;
/// 2 vectorized popcount windows; 3 derived helpers (interleave, multi-extract, huffman/rans/fse extraction)
pub fn bitops_spec(name: &str, make: fn() -> BitOps, make_e: fn() -> EntropyBitOps) -> Spec {
    let gen = move |tier: Tier, out: &mut dyn FnMut(Case) -> bool| {
        let nw = words().len();
        for ch in 0..(nw + CHUNK - 1) / CHUNK {
            if !out(Case { v: 0, k: ch as u32, ..Default::default() }) {
                return;
            }
        }
        for m in 0..nw {
            if !out(Case { v: 1, k: m as u32, n: tier.pick(0, 1), ..Default::default() }) {
                return;
            }
        }
        for ch in 0..(nw + CHUNK - 1) / CHUNK {
            if !out(Case { v: 2, k: ch as u32, ..Default::default() }) {
                return;
            }
        }
        for ch in 0..(nw + CHUNK - 1) / CHUNK {
            if !out(Case { v: 3, k: ch as u32, ..Default::default() }) {
                return;
            }
        }
    };
    let run = move |case: &Case| -> Outcome {
        let w = words();
        let ops = make();
        let eops = make_e();
        let lo = case.k as usize * CHUNK;
        let hi = (lo + CHUNK).min(w.len());
        macro_rules! eq {
            ($op:expr, $got:expr, $want:expr, $($arg:tt)+) => {{
                let (g, wnt) = ($got, $want);
                if g != wnt {
                    return fail("bit_helper", $op, format!("{}({}) = {:x?}, scalar loop gives {:x?}", $op, format!($($arg)+), g, wnt));
                }
            }};
        }
        match case.v {
            0 => {
                for &x in &w[lo..hi] {
                    let x32 = x as u32;
                    let y32 = (x >> 32) as u32;
                    eq!("popcount64", ops.popcount64(x), ref_popcount(x), "{x:#x}");
                    eq!("popcount32", ops.popcount32(x32), ref_popcount(x32 as u64), "{x32:#x}");
                    eq!("popcount32", ops.popcount32(y32), ref_popcount(y32 as u64), "{y32:#x}");
                    eq!("trailing_zeros64", ops.trailing_zeros64(x), ref_tz(x, 64), "{x:#x}");
                    eq!("trailing_zeros32", ops.trailing_zeros32(x32), ref_tz(x32 as u64, 32), "{x32:#x}");
                    eq!("trailing_zeros32", ops.trailing_zeros32(y32), ref_tz(y32 as u64, 32), "{y32:#x}");
                    eq!("reverse_bits64", ops.reverse_bits64(x), ref_reverse(x, 64), "{x:#x}");
                    eq!("bit_reverse_bmi2", ops.bit_reverse_bmi2(x), ref_reverse(x, 64), "{x:#x}");
                    eq!("reverse_bits32", ops.reverse_bits32(x32), ref_reverse(x32 as u64, 32) as u32, "{x32:#x}");
                    eq!("reverse_bits32", ops.reverse_bits32(y32), ref_reverse(y32 as u64, 32) as u32, "{y32:#x}");
                    eq!("EntropyBitOps::reverse_bits32", eops.reverse_bits32(x32), ref_reverse(x32 as u64, 32) as u32, "{x32:#x}");
                    eq!("EntropyBitOps::reverse_bits32", eops.reverse_bits32(y32), ref_reverse(y32 as u64, 32) as u32, "{y32:#x}");
                    for k in 0..=65u32 {
                        eq!("select_bit64", ops.select_bit64(x, k), ref_select(x, k, 64), "{x:#x}, k={k}");
                        if k <= 33 {
                            eq!("select_bit32", ops.select_bit32(x32, k), ref_select(x32 as u64, k, 32), "{x32:#x}, k={k}");
                            eq!("select_bit32", ops.select_bit32(y32, k), ref_select(y32 as u64, k, 32), "{y32:#x}, k={k}");
                        }
                        if k <= 64 {
                            let m64 = if k >= 64 { x } else { x & ((1u64 << k) - 1) };
                            eq!("zero_high_bits64", ops.zero_high_bits64(x, k), m64, "{x:#x}, index={k}");
                        }
                        if k <= 32 {
                            let m32 = if k >= 32 { x32 } else { x32 & ((1u32 << k) - 1) };
                            eq!("zero_high_bits32", ops.zero_high_bits32(x32, k), m32, "{x32:#x}, index={k}");
                        }
                    }
                }
                Outcome::pass("unary")
            }
            1 => {
                let mask = w[case.k as usize];
                let sources: Vec<u64> = if case.n == 1 { w.clone() } else { w[..65].iter().copied().chain(structured()).chain(w[2081..2146].iter().copied()).collect() };
                let (m32, m32h) = (mask as u32, (mask >> 32) as u32);
                for &s in &sources {
                    eq!("parallel_deposit64", ops.parallel_deposit64(s, mask), ref_pdep(s, mask), "{s:#x}, mask {mask:#x}");
                    eq!("parallel_extract64", ops.parallel_extract64(s, mask), ref_pext(s, mask), "{s:#x}, mask {mask:#x}");
                    eq!("pdep_u64", ops.pdep_u64(s, mask), ref_pdep(s, mask), "{s:#x}, mask {mask:#x}");
                    eq!("pext_u64", ops.pext_u64(s, mask), ref_pext(s, mask), "{s:#x}, mask {mask:#x}");
                    let s32 = s as u32;
                    for m in [m32, m32h] {
                        eq!("parallel_deposit32", ops.parallel_deposit32(s32, m), ref_pdep(s32 as u64, m as u64) as u32, "{s32:#x}, mask {m:#x}");
                        eq!("parallel_extract32", ops.parallel_extract32(s32, m), ref_pext(s32 as u64, m as u64) as u32, "{s32:#x}, mask {m:#x}");
                    }
                    eq!("decode_rans_symbols_bmi2", ops.decode_rans_symbols_bmi2(s, mask), ref_pext(s, mask) as u32, "{s:#x}, mask {mask:#x}");
                    eq!("fse_decode_bmi2", ops.fse_decode_bmi2(s, mask, 7), (ref_pext(s, mask) as u32).wrapping_add(7), "{s:#x}, mask {mask:#x}, offset 7");
                }
                Outcome::pass(if mask.count_ones() <= 2 { "pdep_pext/sparse_mask" } else if mask.count_ones() >= 62 { "pdep_pext/dense_mask" } else { "pdep_pext/structured_mask" })
            }
            2 => {
                // every window of 0..=9 consecutive words (vector path needs >= 4, remainder 0..3)
                for start in lo..hi {
                    for len in 0..=9usize {
                        let end = (start + len).min(w.len());
                        let win = &w[start..end];
                        let want: Vec<u32> = win.iter().map(|&x| ref_popcount(x)).collect();
                        let got = ops.vectorized_popcount(win);
                        if got != want {
                            return fail("bit_helper", "vectorized_popcount", format!("vectorized_popcount(words[{start}..{end}]) = {got:?}, scalar loop gives {want:?}"));
                        }
                    }
                }
                Outcome::pass("vectorized_popcount")
            }
            _ => {
                let st = structured();
                for &x in &w[lo..hi] {
                    let (l, h) = (x as u32, (x >> 32) as u32);
                    let mut want = 0u64;
                    for i in 0..32 {
                        want |= ((l >> i & 1) as u64) << (2 * i) | ((h >> i & 1) as u64) << (2 * i + 1);
                    }
                    eq!("bit_interleaving_bmi2", ops.bit_interleaving_bmi2(l, h), want, "{l:#x}, {h:#x}");
                    for masks in st.chunks(5) {
                        let want: Vec<u64> = masks.iter().map(|&m| ref_pext(x, m)).collect();
                        eq!("parallel_bit_extract_bmi2", ops.parallel_bit_extract_bmi2(x, masks), want.clone(), "{x:#x}, {} masks", masks.len());
                        let want32: Vec<u32> = want.iter().map(|&v| v as u32).collect();
                        eq!("extract_huffman_symbols_bmi2", ops.extract_huffman_symbols_bmi2(x, masks), want32, "{x:#x}, {} masks", masks.len());
                    }
                }
                Outcome::pass("derived")
            }
        }
    };
    Spec {
        name: name.to_string(),
        space: "bit helpers on W = all 64-bit words with <= 2 bits set (2081) or cleared (2081) + 64 structured words (32-bit variants on both halves): popcount32/64, trailing_zeros32/64, reverse_bits32/64, bit_reverse_bmi2, EntropyBitOps::reverse_bits32, select_bit32/64 for ALL k 0..=33/65, zero_high_bits32/64 for index 0..=32/64; pdep/pext 32/64 (+pdep_u64/pext_u64, rans/fse extraction) for every mask in W x sources {quick: 194 words (<=1 bit set/cleared + structured); thorough: all of W}; vectorized_popcount on every window of 0..=9 consecutive words of W; interleave / multi-mask extraction on W x structured masks; oracle: bit-at-a-time scalar loops".into(),
        gen: Box::new(gen),
        run: Box::new(run),
        isolate: false,
        fault_class: default_fault_class,
    }
}

pub fn dispatcher_spec(name: &str, make: fn() -> CompressionBmi2Dispatcher) -> Spec {
    let gen = move |_tier: Tier, out: &mut dyn FnMut(Case) -> bool| {
        let nw = words().len();
        for v in [0u8, 1] {
            for ch in 0..(nw + CHUNK - 1) / CHUNK {
                if !out(Case { k: ch as u32, v, ..Default::default() }) {
                    return;
                }
            }
        }
    };
    let run = move |case: &Case| -> Outcome {
        let w = words();
        let d = make();
        let lo = case.k as usize * CHUNK;
        let hi = (lo + CHUNK).min(w.len());
        let win = &w[lo..hi];
        if case.v == 0 {
            let table: [(&str, CompressionOperation, fn(u64) -> u64); 4] = [
                ("PopCount", CompressionOperation::PopCount, |x| ref_popcount(x) as u64),
                ("LeadingZeros", CompressionOperation::LeadingZeros, |x| (0..64).find(|&i| x >> (63 - i) & 1 == 1).unwrap_or(64) as u64),
                ("TrailingZeros", CompressionOperation::TrailingZeros, |x| ref_tz(x, 64) as u64),
                ("BitReverse", CompressionOperation::BitReverse, |x| ref_reverse(x, 64)),
            ];
            for (nm, op, r) in table {
                let got = d.dispatch_bit_stream_process(win, op);
                let want: Vec<u64> = win.iter().map(|&x| r(x)).collect();
                if got != want {
                    let p = got.iter().zip(&want).position(|(a, b)| a != b).unwrap_or(0);
                    return fail("bit_helper", format!("dispatch_bit_stream_process/{nm}"), format!("{nm}({:#x}) = {:#x?}, scalar loop gives {:#x?}", win[p], got.get(p), want.get(p)));
                }
            }
        }
        // parallel extraction into u32 symbols: masks of <= 32 bits (v=0) and of > 32 bits (v=1; the
        // accelerated path defines the result as the low 32 bits of the extraction)
        let st: Vec<u64> = structured().into_iter().filter(|m| (m.count_ones() > 32) == (case.v == 1)).collect();
        let mc = if case.v == 1 { "mask_bits>32" } else { "mask_bits<=32" };
        for &x in win {
            for masks in st.chunks(7) {
                let want: Vec<u32> = masks.iter().map(|&m| ref_pext(x, m) as u32).collect();
                match zverif::util::catch(|| d.dispatch_variable_length_decode(x, masks)) {
                    Ok(got) if got == want => {}
                    Ok(got) => return fail("bit_helper", format!("dispatch_variable_length_decode/wrong/{mc}"), format!("decode({x:#x}, {:x?}) = {got:x?}, scalar pext loop (low 32 bits) gives {want:x?}", masks)),
                    Err(f) => return fail("bit_helper", format!("dispatch_variable_length_decode/panic/{mc}"), format!("decode({x:#x}, {:x?}): {}; scalar pext loop (low 32 bits) gives {want:x?}", masks, f.detail)),
                }
            }
        }
        Outcome::pass(if case.v == 0 { "dispatcher/stream_ops+masks<=32" } else { "dispatcher/masks>32" })
    };
    Spec {
        name: name.to_string(),
        space: "CompressionBmi2Dispatcher: dispatch_bit_stream_process {PopCount, LeadingZeros, TrailingZeros, BitReverse} on all of W (chunks of 128 words); dispatch_variable_length_decode on W x structured masks, masks of <= 32 bits and of > 32 bits as separate variants; oracle: bit-at-a-time loops (low 32 bits of the extraction)".into(),
        gen: Box::new(gen),
        run: Box::new(run),
        isolate: false,
        fault_class: default_fault_class,
    }
}

// ------------------------------------------------------------------------------------------------
// histogram counting: FseEncoder::analyze_frequencies, observed through the frequency table in the
// header written by compress() (inputs of >= 100 bytes)

pub fn histogram_spec(name: &str, avx2: bool) -> Spec {
    use zipora::entropy::fse::{FseConfig, FseEncoder};
    let gen = move |tier: Tier, out: &mut dyn FnMut(Case) -> bool| {
        for n in 100..=260u32 {
            for a in few_aligns(tier) {
                // c=5 (coverage audit): one dominant symbol in all bytes but the last, so that a single counter of the
                // chunked part passes 255 at n >= 257
                for c in 0..6u8 {
                    if !out(Case { n, a, c, ..Default::default() }) {
                        return;
                    }
                }
            }
        }
    };
    let run = move |case: &Case| -> Outcome {
        let n = case.n as usize;
        let bytes: Vec<u8> = match case.c {
            0..=2 => content(case.c, n),
            3 => (0..n).map(|i| b"abracadabra alakazam"[i % 20]).collect(),
            4 => (0..n).map(|i| if i % 32 == 31 { 0xFF } else { (i % 5) as u8 }).collect(),
            _ => (0..n).map(|i| if i + 1 == n { 0x01 } else { 0xAA }).collect(),
        };
        let data = place(0, case.a, &bytes);
        let mut cfg = FseConfig::default();
        cfg.hardware.avx2 = avx2;
        let mut enc = match FseEncoder::new(cfg) {
            Ok(e) => e,
            Err(e) => return Outcome::skip(&format!("encoder refused config: {e}")),
        };
        let out = match enc.compress(data) {
            Ok(o) => o,
            Err(_) => return Outcome::skip("compress returned Err"),
        };
        // header: u32 len, u8 table_log, u16 count, count x (u8 symbol, u32 freq)
        if out.len() < 7 || out[4] == 0xFF {
            return Outcome::skip("no frequency table in the output");
        }
        let cnt = u16::from_le_bytes([out[5], out[6]]) as usize;
        if out.len() < 7 + cnt * 5 {
            return Outcome::skip("short header");
        }
        let mut got = [0u32; 256];
        for i in 0..cnt {
            let o = 7 + i * 5;
            got[out[o] as usize] = u32::from_le_bytes([out[o + 1], out[o + 2], out[o + 3], out[o + 4]]);
        }
        let mut want = [0u32; 256];
        for &b in data.iter() {
            want[b as usize] += 1;
        }
        if got != want {
            let s = (0..256).find(|&s| got[s] != want[s]).unwrap();
            return fail("histogram", format!("wrong_count/n%32={}", if n % 32 == 0 { "0" } else { "nz" }), format!("len={n} align={} content={}: count[{s:#04x}] = {}, scalar loop gives {}", case.a, case.c, got[s], want[s]));
        }
        Outcome::pass(&format!("{}/c{}/n%32={}", lc(n), case.c, if n % 32 == 0 { "0" } else { "nz" }))
    };
    Spec {
        name: name.to_string(),
        space: "histogram (FseEncoder::analyze_frequencies observed through the frequency table of compress()): every length 100..=260 (shorter inputs are stored without a table) x alignment {quick: 0,1,guard-ended; thorough: 16 values} x contents {ascending, >=0x80, embedded NUL, text, 5-symbol + 0xFF every 32nd, one dominant symbol in every byte but the last (count up to 259; 256 of them inside the 32-byte chunks at n >= 257)}; hardware.avx2 forced on/off by configuration; oracle: byte-at-a-time counting".into(),
        gen: Box::new(gen),
        run: Box::new(run),
        isolate: false,
        fault_class: default_fault_class,
    }
}
