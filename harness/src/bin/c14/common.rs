//! Shared plumbing for C14: the case type, the guard-page arena, child isolation, content classes.

use serde::{Deserialize, Serialize};
use zverif::enumr::EnumSpec;
use zverif::util::catch;
use zverif::{Fail, Outcome, Tier};

/// alignment value meaning "the slice ENDS on the last byte before a PROT_NONE page"
pub const G: u8 = 255;

/// One enumerated case.  All subjects share this shape; which fields are used is stated in the
/// subject's `space()` text.  Everything that determines a failure *class* is a field here; the
/// positions (differing byte, needle position, split point, fill value ...) are looped inside `run`.
#[derive(Serialize, Deserialize, Hash, Clone, Debug, Default, PartialEq)]
pub struct Case {
    /// length of the (first) buffer
    pub n: u32,
    /// alignment (mod 64) of the first/source buffer, or 255 = ends at the guard page
    pub a: u8,
    /// alignment of the second/destination buffer, or 255
    pub b: u8,
    /// content class
    pub c: u8,
    /// needle length / set size / auxiliary size
    pub k: u32,
    /// variant (family specific)
    pub v: u8,
    /// small-scope data (hex) where the case is an explicit string
    #[serde(default)]
    pub d: String,
}

pub struct Spec {
    pub name: String,
    pub space: String,
    pub gen: Box<dyn Fn(Tier, &mut dyn FnMut(Case) -> bool)>,
    pub run: Box<dyn Fn(&Case) -> Outcome>,
    /// run guard-placed cases in a forked child (subject is known to fault on the unchanged tree)
    pub isolate: bool,
    /// failure class of a fault, a function of the case only
    pub fault_class: fn(&Case) -> String,
}

pub fn default_fault_class(_c: &Case) -> String {
    "fault".to_string()
}

fn isolate_all() -> bool {
    static F: std::sync::OnceLock<bool> = std::sync::OnceLock::new();
    *F.get_or_init(|| std::env::var("ZV_C14_ISOLATE").map(|v| v == "1" || v == "all").unwrap_or(false))
}

impl EnumSpec for Spec {
    type Case = Case;
    fn name(&self) -> String {
        self.name.clone()
    }
    fn space(&self, tier: Tier) -> String {
        format!("[{}] {}", tier.name(), self.space)
    }
    fn cases(&self, tier: Tier, f: &mut dyn FnMut(Case) -> bool) {
        (self.gen)(tier, f)
    }
    fn run(&self, case: &Case) -> Outcome {
        let guarded = case.a == G || case.b == G;
        if guarded && (self.isolate || isolate_all()) {
            isolated(&|| (self.run)(case), &|| (self.fault_class)(case))
        } else {
            (self.run)(case)
        }
    }
}

// ------------------------------------------------------------------------------------------------
// arena: three regions of PAGES read/write pages each followed by one PROT_NONE page

pub const PAGE: usize = 4096;
const PAGES: usize = 4;
const NREG: usize = 4;
/// offset of alignment-0 slices inside a region (64-aligned, leaves room for a canary zone before)
const OFF: usize = 1024;
pub const CANARY: u8 = 0xCD;
pub const ZONE: usize = 80;

pub struct Arena {
    base: [usize; NREG],
    progress: usize,
}

static ARENA: std::sync::OnceLock<Arena> = std::sync::OnceLock::new();

pub fn arena() -> &'static Arena {
    ARENA.get_or_init(|| unsafe {
        let mut base = [0usize; NREG];
        for b in base.iter_mut() {
            let len = (PAGES + 1) * PAGE;
            let p = libc::mmap(std::ptr::null_mut(), len, libc::PROT_READ | libc::PROT_WRITE, libc::MAP_PRIVATE | libc::MAP_ANONYMOUS, -1, 0);
            assert!(p != libc::MAP_FAILED, "mmap failed");
            let g = (p as usize + PAGES * PAGE) as *mut libc::c_void;
            assert!(libc::mprotect(g, PAGE, libc::PROT_NONE) == 0, "mprotect failed");
            std::ptr::write_bytes(p as *mut u8, CANARY, PAGES * PAGE);
            *b = p as usize;
        }
        let p = libc::mmap(std::ptr::null_mut(), PAGE, libc::PROT_READ | libc::PROT_WRITE, libc::MAP_SHARED | libc::MAP_ANONYMOUS, -1, 0);
        assert!(p != libc::MAP_FAILED, "mmap failed");
        Arena { base, progress: p as usize }
    })
}

impl Arena {
    fn start(&self, region: usize, align: u8, n: usize) -> usize {
        assert!(n + OFF + 64 + ZONE <= PAGES * PAGE);
        if align == G {
            self.base[region] + PAGES * PAGE - n
        } else {
            self.base[region] + OFF + (align as usize & 63)
        }
    }
    /// A slice of `n` bytes in `region` with the requested placement; the surrounding zone is reset to
    /// the canary value.  The returned slices of different regions never overlap.
    #[allow(clippy::mut_from_ref)]
    pub fn buf(&self, region: usize, align: u8, n: usize) -> &'static mut [u8] {
        let s = self.start(region, align, n);
        unsafe {
            let lo = s - ZONE;
            let hi = if align == G { s + n } else { s + n + ZONE };
            std::ptr::write_bytes(lo as *mut u8, CANARY, hi - lo);
            std::slice::from_raw_parts_mut(s as *mut u8, n)
        }
    }
    /// true iff the canary zone around the slice handed out by `buf` is intact
    pub fn zone_intact(&self, region: usize, align: u8, n: usize) -> bool {
        let s = self.start(region, align, n);
        unsafe {
            let before = std::slice::from_raw_parts((s - ZONE) as *const u8, ZONE);
            if before.iter().any(|&x| x != CANARY) {
                return false;
            }
            if align != G {
                let after = std::slice::from_raw_parts((s + n) as *const u8, ZONE);
                if after.iter().any(|&x| x != CANARY) {
                    return false;
                }
            }
        }
        true
    }
    /// record the inner-loop position (visible to the parent of an isolated child)
    #[inline]
    pub fn progress(&self, p: u64) {
        unsafe { std::ptr::write_volatile(self.progress as *mut u64, p) }
    }
    pub fn last_progress(&self) -> u64 {
        unsafe { std::ptr::read_volatile(self.progress as *const u64) }
    }
}

pub fn place(region: usize, align: u8, data: &[u8]) -> &'static mut [u8] {
    let b = arena().buf(region, align, data.len());
    b.copy_from_slice(data);
    b
}

// ------------------------------------------------------------------------------------------------
// child isolation

fn enc(o: &Outcome) -> String {
    let clean = |s: &str| s.replace(['\t', '\n'], " ");
    match o {
        Outcome::Pass { nontrivial, class } => format!("P\t{}\t{}", if *nontrivial { 1 } else { 0 }, clean(class)),
        Outcome::Skip(w) => format!("S\t{}", clean(w)),
        Outcome::Fail(f) => format!("F\t{}\t{}\t{}", clean(&f.clause), clean(&f.class), clean(&zverif::core::truncate(&f.detail, 1500))),
    }
}

fn dec(s: &str) -> Option<Outcome> {
    let p: Vec<&str> = s.split('\t').collect();
    match p.first().copied() {
        Some("P") if p.len() >= 3 => Some(Outcome::Pass { nontrivial: p[1] == "1", class: p[2].to_string() }),
        Some("S") if p.len() >= 2 => Some(Outcome::Skip(p[1].to_string())),
        Some("F") if p.len() >= 4 => Some(Outcome::Fail(Fail { clause: p[1].into(), class: p[2].into(), detail: p[3].into() })),
        _ => None,
    }
}

/// Run `f` in a forked child; a child killed by a signal becomes `Fail{clause:"memory_fault"}`.
pub fn isolated(f: &dyn Fn() -> Outcome, fault_class: &dyn Fn() -> String) -> Outcome {
    let ar = arena();
    ar.progress(u64::MAX);
    unsafe {
        let mut fds = [0i32; 2];
        if libc::pipe(fds.as_mut_ptr()) != 0 {
            return Outcome::skip("pipe() failed");
        }
        let pid = libc::fork();
        if pid < 0 {
            libc::close(fds[0]);
            libc::close(fds[1]);
            return Outcome::skip("fork() failed");
        }
        if pid == 0 {
            libc::close(fds[0]);
            let o = match catch(f) {
                Ok(o) => o,
                Err(fl) => Outcome::Fail(fl),
            };
            let s = enc(&o);
            let mut off = 0;
            while off < s.len() {
                let w = libc::write(fds[1], s.as_ptr().add(off) as *const libc::c_void, s.len() - off);
                if w <= 0 {
                    break;
                }
                off += w as usize;
            }
            libc::_exit(0);
        }
        libc::close(fds[1]);
        let mut out = Vec::new();
        let mut tmp = [0u8; 4096];
        loop {
            let r = libc::read(fds[0], tmp.as_mut_ptr() as *mut libc::c_void, tmp.len());
            if r <= 0 {
                break;
            }
            out.extend_from_slice(&tmp[..r as usize]);
        }
        libc::close(fds[0]);
        let mut status = 0i32;
        libc::waitpid(pid, &mut status, 0);
        if libc::WIFSIGNALED(status) {
            let sig = libc::WTERMSIG(status);
            let p = ar.last_progress();
            return Outcome::Fail(Fail {
                clause: "memory_fault".into(),
                class: fault_class(),
                detail: format!(
                    "isolated child killed by signal {sig} while the input slice ended at a PROT_NONE guard page (read or write past the end of the slice); inner step {}",
                    if p == u64::MAX { "before first".to_string() } else { p.to_string() }
                ),
            });
        }
        match dec(&String::from_utf8_lossy(&out)) {
            Some(o) => o,
            None => Outcome::Fail(Fail { clause: "memory_fault".into(), class: "child_no_report".into(), detail: format!("child exited with status {status} without a report") }),
        }
    }
}

// ------------------------------------------------------------------------------------------------
// content classes

pub const C_ASC: u8 = 0;
pub const C_HIGH: u8 = 1;
pub const C_NUL: u8 = 2;
pub const CONTENTS: [u8; 3] = [C_ASC, C_HIGH, C_NUL];

pub fn cname(c: u8) -> &'static str {
    match c {
        C_ASC => "asc",
        C_HIGH => "high",
        C_NUL => "nul",
        _ => "?",
    }
}

/// raw byte contents: ascending bytes / all 0x80..0xFF / text with embedded NULs
pub fn content(c: u8, n: usize) -> Vec<u8> {
    (0..n)
        .map(|i| match c {
            C_ASC => i as u8,
            C_HIGH => 0x80 | ((i * 7 + i / 128) as u8 & 0x7F),
            _ => {
                if i % 3 == 1 {
                    0
                } else {
                    0x61 + (i % 23) as u8
                }
            }
        })
        .collect()
}

/// valid UTF-8 contents of exactly n bytes: ASCII ascending (mod 128) / two-byte characters (bytes >= 0x80) /
/// ASCII with embedded NULs
pub fn content_str(c: u8, n: usize) -> Vec<u8> {
    match c {
        C_ASC => (0..n).map(|i| (i % 128) as u8).collect(),
        C_HIGH => {
            let mut v = Vec::with_capacity(n);
            if n % 2 == 1 {
                v.push(b'a');
            }
            let mut i = 0usize;
            while v.len() < n {
                v.push(0xC3);
                v.push(0xA0 + (i % 32) as u8); // à..ÿ
                i += 1;
            }
            v
        }
        _ => content(C_NUL, n),
    }
}

pub fn as_str(b: &[u8]) -> &str {
    std::str::from_utf8(b).expect("harness content must be valid UTF-8")
}

/// length bucket relative to the vector widths
pub fn lc(n: usize) -> &'static str {
    match n {
        0 => "n=0",
        1..=7 => "n<8",
        8..=15 => "n<16",
        16..=31 => "n<32",
        32..=63 => "n<64",
        64..=127 => "n<128",
        _ => "n>=128",
    }
}

pub fn all_lens() -> Vec<u32> {
    (0..=260).collect()
}

/// lengths straddling 8/16/32/64/128/256 for the families whose inner loop is quadratic
pub fn grid_lens() -> Vec<u32> {
    let mut v: Vec<u32> = (0..=40).collect();
    v.extend_from_slice(&[47, 48, 49, 63, 64, 65, 66, 79, 80, 81, 95, 96, 97, 127, 128, 129, 159, 160, 161, 191, 192, 193, 255, 256, 257, 260]);
    v
}

pub const DST_ALIGNS: [u8; 4] = [0, 1, 15, 63];

pub fn src_aligns(tier: Tier) -> Vec<u8> {
    match tier {
        Tier::Quick => vec![0, 1, 3, 15, 16, 31, 33, 63],
        Tier::Thorough => (0..64).collect(),
    }
}

/// (src, dst) placements of two-buffer subjects: src alignment x dst alignment, plus both guard-ended
pub fn pair_aligns(tier: Tier) -> Vec<(u8, u8)> {
    let mut v = Vec::new();
    for a in src_aligns(tier) {
        for b in DST_ALIGNS {
            v.push((a, b));
        }
    }
    v.push((G, G));
    v
}

/// placements of one-buffer subjects: every alignment 0..63 plus guard-ended
pub fn one_aligns(tier: Tier) -> Vec<u8> {
    let mut v: Vec<u8> = match tier {
        Tier::Quick => vec![0, 1, 2, 3, 7, 8, 15, 16, 17, 31, 32, 33, 47, 48, 49, 63],
        Tier::Thorough => (0..64).collect(),
    };
    v.push(G);
    v
}

/// placements for the quadratic (needle) families
pub fn few_aligns(tier: Tier) -> Vec<u8> {
    match tier {
        Tier::Quick => vec![0, 1, G],
        Tier::Thorough => vec![0, 1, 2, 3, 7, 8, 15, 16, 17, 31, 32, 33, 47, 48, 63, G],
    }
}

pub fn fail(clause: &str, class: impl Into<String>, detail: impl Into<String>) -> Outcome {
    zverif::enumr::fail(clause, class, detail)
}

pub fn sign(x: i32) -> i32 {
    x.signum()
}

pub fn ord_sign(o: std::cmp::Ordering) -> i32 {
    match o {
        std::cmp::Ordering::Less => -1,
        std::cmp::Ordering::Equal => 0,
        std::cmp::Ordering::Greater => 1,
    }
}
