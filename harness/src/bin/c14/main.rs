//! C14 — accelerated code paths compute the same function as the scalar definition (engine E2).
//!
//! One subject per public entry point (dispatching and tier specific).  Subject names do not depend on
//! the CPU tier mask: a forced-lower-tier pass is the same binary run with
//! `ZIPORA_VERIF_CPU_MASK=avx512,avx2,...` in the environment (see notes/C14.md for which modules honour it).

mod bits;
mod codec;
mod common;
mod mem;
mod text;

use common::*;
use std::cmp::Ordering;
use zverif::enumr::Enum;

use zipora::entropy::bit_ops::{BitOps, CompressionBmi2Dispatcher, EntropyBitOps};
use zipora::hash_map::{get_global_simd_ops as hm_ops, SimdStringOps};
use zipora::io::simd_memory::copy as smc;
use zipora::io::simd_memory::search as sms;
use zipora::io::simd_validation::utf8 as sv8;
use zipora::memory::simd_ops as mso;
use zipora::string::bmi2 as b2;
use zipora::string::simd as ss;

fn e2s<T, E: std::fmt::Display>(r: Result<T, E>) -> Result<T, String> {
    r.map_err(|e| e.to_string())
}

fn ord(o: Ordering) -> i32 {
    ord_sign(o)
}

fn strstr_fault_class(c: &Case) -> String {
    format!("fault/{}", if c.k < 16 { "needle<16" } else { "needle>=16" })
}

/// scalar definition of hash_map::simd_string_ops (scalar_string_hash): 8-byte little-endian words, then bytes
fn hm_scalar_hash(b: &[u8], mut h: u64) -> u64 {
    let mut it = b.chunks_exact(8);
    for w in &mut it {
        h = h.rotate_left(5).wrapping_add(u64::from_le_bytes(w.try_into().unwrap()));
    }
    for &x in it.remainder() {
        h = h.rotate_left(5).wrapping_add(x as u64);
    }
    h
}
fn hm_hash_class(n: usize) -> String {
    // vector tiers engage at n >= 16 (SSE4.2) / 32 (AVX2) / 64 (AVX-512)
    format!("differs/{}", if n >= 16 { "n>=16" } else { "n<16" })
}
/// scalar definition of bmi2_string_ops::hash_string_scalar: byte at a time
fn b2_scalar_hash(b: &[u8], mut h: u64) -> u64 {
    for &x in b {
        h = h.rotate_left(5).wrapping_add(x as u64);
    }
    h
}
fn b2_hash_class(n: usize) -> String {
    format!("differs/{}", if n >= 8 { "n>=8" } else { "n<8" })
}

fn ascii_class(s: &str) -> String {
    format!("differs/{}/{}", if s.is_ascii() { "ascii" } else { "non_ascii" }, if s.len() >= 8 { "n>=8" } else { "n<8" })
}

fn runs_bytes(r: Vec<b2::CharRun>) -> Vec<u8> {
    let mut v = Vec::new();
    for x in r {
        v.push(x.character);
        v.extend_from_slice(&(x.start as u32).to_le_bytes());
        v.extend_from_slice(&(x.length as u32).to_le_bytes());
    }
    v
}

fn main() {
    zverif::main_with("C14", |reg, _tier| {
        // touch the arena before anything else so that forked children inherit it
        let _ = arena();

        // ---------------------------------------------------------------- memory::simd_ops (mask: yes)
        reg.add(Enum(mem::copy_spec("memory::simd_ops::fast_copy", Box::new(|s, d| e2s(mso::fast_copy(s, d))), false, None)));
        reg.add(Enum(mem::copy_spec("memory::simd_ops::fast_copy_cache_optimized", Box::new(|s, d| e2s(mso::fast_copy_cache_optimized(s, d))), false, None)));
        reg.add(Enum(mem::copy_spec("memory::simd_ops::SimdMemOps::copy_aligned", Box::new(|s, d| e2s(mso::get_global_simd_ops().copy_aligned(s, d))), true, None)));
        reg.add(Enum(mem::copy_spec("memory::simd_ops::SimdMemOps::copy_nonoverlapping[new]", Box::new(|s, d| e2s(mso::SimdMemOps::new().copy_nonoverlapping(s, d))), false, None)));
        reg.add(Enum(mem::fill_spec("memory::simd_ops::fast_fill", Box::new(|d, v| mso::fast_fill(d, v)))));
        reg.add(Enum(mem::cmp_spec("memory::simd_ops::fast_compare", Box::new(|a, b| mso::fast_compare(a, b)), mem::lexicographic, false, false, "i32 sign vs slice cmp")));
        reg.add(Enum(mem::cmp_spec("memory::simd_ops::fast_compare_cache_optimized", Box::new(|a, b| mso::fast_compare_cache_optimized(a, b)), mem::lexicographic, false, false, "i32 sign vs slice cmp")));
        reg.add(Enum(mem::findbyte_spec("memory::simd_ops::fast_find_byte", Box::new(|h, n| mso::fast_find_byte(h, n)))));

        // ---------------------------------------------------------------- io::simd_memory::copy (mask: yes)
        reg.add(Enum(mem::copy_spec("io::simd_memory::copy::copy_large_simd", Box::new(|s, d| e2s(smc::copy_large_simd(d, s))), false, None)));
        reg.add(Enum(mem::copy_spec("io::simd_memory::copy::copy_small_simd", Box::new(|s, d| e2s(smc::copy_small_simd(d, s))), false, Some(256))));
        reg.add(Enum(mem::copy_spec("io::simd_memory::copy::copy_aligned_simd", Box::new(|s, d| e2s(smc::copy_aligned_simd(d, s))), true, None)));

        // ---------------------------------------------------------------- io::simd_memory::search
        // dispatchers: tier from get_cpu_features (mask: yes); sse42_*: is_x86_feature_detected (mask: no)
        reg.add(Enum(mem::findbyte_spec("io::simd_memory::search::find_char", Box::new(|h, n| sms::find_char(h, n)))));
        reg.add(Enum(mem::findbyte_spec("io::simd_memory::search::sse42_strchr", Box::new(|h, n| sms::sse42_strchr(h, n)))));
        reg.add(Enum(mem::findbyte_spec("io::simd_memory::search::scalar_strchr", Box::new(|h, n| sms::scalar_strchr(h, n)))));
        reg.add(Enum(mem::strstr_spec("io::simd_memory::search::find_pattern", Box::new(|h, n| sms::find_pattern(h, n)), mem::strstr_empty_matches, false, true, strstr_fault_class)));
        reg.add(Enum(mem::strstr_spec("io::simd_memory::search::sse42_strstr", Box::new(|h, n| sms::sse42_strstr(h, n)), mem::strstr_empty_matches, false, true, strstr_fault_class)));
        reg.add(Enum(mem::strstr_spec("io::simd_memory::search::scalar_strstr", Box::new(|h, n| sms::scalar_strstr(h, n)), mem::strstr_empty_matches, false, false, strstr_fault_class)));
        reg.add(Enum(mem::anyof_spec("io::simd_memory::search::find_any_of", Box::new(|h, s| sms::find_any_of(h, s)))));
        reg.add(Enum(mem::anyof_spec("io::simd_memory::search::sse42_multi_search", Box::new(|h, s| sms::sse42_multi_search(h, s)))));
        reg.add(Enum(mem::anyof_spec("io::simd_memory::search::scalar_multi_search", Box::new(|h, s| sms::scalar_multi_search(h, s)))));
        reg.add(Enum(mem::cmp_spec("io::simd_memory::search::compare_strings", Box::new(|a, b| ord(sms::compare_strings(a, b))), mem::lexicographic, false, false, "Ordering vs slice cmp")));
        reg.add(Enum(mem::cmp_spec("io::simd_memory::search::sse42_strcmp", Box::new(|a, b| ord(sms::sse42_strcmp(a, b))), mem::lexicographic, false, false, "Ordering vs slice cmp")));
        reg.add(Enum(mem::cmp_spec("io::simd_memory::search::scalar_strcmp", Box::new(|a, b| ord(sms::scalar_strcmp(a, b))), mem::lexicographic, false, false, "Ordering vs slice cmp")));

        // ---------------------------------------------------------------- string::simd_search (mask: yes)
        reg.add(Enum(mem::findbyte_spec("string::simd_search::sse42_strchr", Box::new(|h, n| ss::sse42_strchr(h, n)))));
        reg.add(Enum(mem::strstr_spec("string::simd_search::sse42_strstr", Box::new(|h, n| ss::sse42_strstr(h, n)), mem::strstr_empty_none, false, false, strstr_fault_class)));
        reg.add(Enum(mem::multi_spec(
            "string::simd_search::sse42_multi_search",
            Box::new(|h, s| {
                let r = ss::sse42_multi_search(h, s);
                (r.positions, r.characters)
            }),
        )));
        reg.add(Enum(mem::cmp_spec(
            "string::simd_search::sse42_strcmp",
            Box::new(|a, b| ord(ss::sse42_strcmp(a, b))),
            mem::length_then_lexicographic,
            false,
            false,
            "Ordering vs the module's definition: shorter < longer, equal lengths lexicographic",
        )));

        // ---------------------------------------------------------------- hash_map::simd_string_ops (mask: yes)
        reg.add(Enum(mem::cmp_spec(
            "hash_map::simd_string_ops::fast_string_compare[prefix=0]",
            Box::new(|a, b| !hm_ops().fast_string_compare(as_str(a), as_str(b), 0) as i32),
            mem::equality,
            true,
            true,
            "bool vs a == b, no cached prefix",
        )));
        reg.add(Enum(mem::cmp_spec(
            "hash_map::simd_string_ops::fast_string_compare[prefix=of second]",
            Box::new(|a, b| {
                let ops = hm_ops();
                let p = ops.extract_prefix_simd(as_str(b));
                !ops.fast_string_compare(as_str(a), as_str(b), p) as i32
            }),
            mem::equality,
            true,
            true,
            "bool vs a == b, cached_prefix = extract_prefix_simd(second)",
        )));
        reg.add(Enum(mem::hash_spec("hash_map::simd_string_ops::fast_string_hash", Box::new(|b, seed| hm_ops().fast_string_hash(as_str(b), seed)), hm_scalar_hash, hm_hash_class, "vs scalar_string_hash: 8-byte LE words then bytes")));
        reg.add(Enum(mem::hash_spec(
            "hash_map::simd_string_ops::extract_prefix_simd",
            Box::new(|b, _| SimdStringOps::new().extract_prefix_simd(as_str(b))),
            |b, _| b.iter().take(8).enumerate().fold(0u64, |p, (i, &x)| p | (x as u64) << (8 * i)),
            |n| format!("differs/{}", lc(n)),
            "vs scalar_extract_prefix: first <= 8 bytes little-endian",
        )));

        // ---------------------------------------------------------------- UTF-8 (mask: yes for all)
        reg.add(Enum(text::utf8_spec("string::unicode::validate_utf8_and_count_chars", text::U8Kind::Count, Box::new(|b| text::U8Out::Count(zipora::string::validate_utf8_and_count_chars(b).ok())), false)));
        reg.add(Enum(text::utf8_spec("io::simd_validation::utf8::validate_utf8", text::U8Kind::Valid, Box::new(|b| text::U8Out::Valid(sv8::validate_utf8(b).unwrap_or(false))), false)));
        reg.add(Enum(text::utf8_spec("io::simd_validation::utf8::is_valid_utf8", text::U8Kind::Valid, Box::new(|b| text::U8Out::Valid(sv8::is_valid_utf8(b))), false)));
        reg.add(Enum(text::utf8_spec(
            "io::simd_validation::utf8::Utf8Validator[unmonitored]",
            text::U8Kind::Valid,
            Box::new(|b| {
                thread_local! { static V: sv8::Utf8Validator = sv8::Utf8Validator::new_unmonitored(); }
                V.with(|v| text::U8Out::Valid(v.validate_utf8(b).unwrap_or(false)))
            }),
            false,
        )));
        reg.add(Enum(text::utf8_spec("string::bmi2_string_ops::validate_utf8_bmi2", text::U8Kind::Valid, Box::new(|b| text::U8Out::Valid(b2::validate_utf8_bmi2(b))), false)));
        reg.add(Enum(text::utf8_spec("string::bmi2_string_ops::count_utf8_chars_bmi2", text::U8Kind::Count, Box::new(|b| text::U8Out::Count(b2::count_utf8_chars_bmi2(b).ok())), false)));
        reg.add(Enum(text::utf8_spec("string::bmi2_string_ops::decode_utf8_char_bmi2/extract_utf8_chars_bmi2", text::U8Kind::Chars, Box::new(|b| text::U8Out::Chars(b2::get_global_bmi2_processor().extract_utf8_chars_bmi2(b).ok())), false)));
        reg.add(Enum(text::utf8_spec("string::bmi2_string_ops::decode_utf8_char_bmi2/utf8_to_utf16_bmi2", text::U8Kind::Utf16, Box::new(|b| text::U8Out::Utf16(b2::get_global_bmi2_processor().utf8_to_utf16_bmi2(b).ok())), false)));

        // ---------------------------------------------------------------- string::bmi2_string_ops, other operations (mask: yes)
        reg.add(Enum(mem::strstr_spec(
            "string::bmi2_string_ops::search_string_bmi2",
            Box::new(|h, n| b2::search_string_bmi2(as_str(h), as_str(n))),
            mem::strstr_empty_matches,
            true,
            false,
            strstr_fault_class,
        )));
        reg.add(Enum(text::wildcard_spec("string::bmi2_string_ops::wildcard_match_bmi2", Box::new(|t, p| b2::wildcard_match_bmi2(t, p)))));
        reg.add(Enum(text::xform_spec("string::bmi2_string_ops::to_lowercase_ascii_bmi2", Box::new(|s| b2::to_lowercase_ascii_bmi2(s).into_bytes()), Box::new(|s| s.to_ascii_lowercase().into_bytes()), ascii_class, "ASCII lower-casing")));
        reg.add(Enum(text::xform_spec("string::bmi2_string_ops::to_uppercase_ascii_bmi2", Box::new(|s| b2::to_uppercase_ascii_bmi2(s).into_bytes()), Box::new(|s| s.to_ascii_uppercase().into_bytes()), ascii_class, "ASCII upper-casing")));
        reg.add(Enum(text::xform_spec(
            "string::bmi2_string_ops::filter_chars_bmi2[NoWhitespace,AlnumOnly,RemoveChars]",
            Box::new(|s| {
                let p = b2::get_global_bmi2_processor();
                let mut v = p.filter_chars_bmi2(s, b2::CharFilter::NoWhitespace).into_bytes();
                v.push(0xFE);
                v.extend(p.filter_chars_bmi2(s, b2::CharFilter::AlnumOnly).into_bytes());
                v.push(0xFE);
                v.extend(p.filter_chars_bmi2(s, b2::CharFilter::RemoveChars(vec![b'a', 0, b'l'])).into_bytes());
                v
            }),
            Box::new(|s| {
                let mut v = Vec::new();
                for (i, f) in [b2::CharFilter::NoWhitespace, b2::CharFilter::AlnumOnly, b2::CharFilter::RemoveChars(vec![b'a', 0, b'l'])].into_iter().enumerate() {
                    if i > 0 {
                        v.push(0xFE);
                    }
                    v.extend(s.chars().filter(|&c| f.matches(c)).collect::<String>().into_bytes());
                }
                v
            }),
            ascii_class,
            "character filtering",
        )));
        reg.add(Enum(text::xform_spec(
            "string::bmi2_string_ops::char_class_match_bmi2[Alpha|Digit,Space|Range]",
            Box::new(|s| {
                let p = b2::get_global_bmi2_processor();
                let mut v: Vec<u8> = p.char_class_match_bmi2(s, &[b2::CharClass::Alpha]).into_iter().map(|b| b as u8).collect();
                v.push(9);
                v.extend(p.char_class_match_bmi2(s, &[b2::CharClass::Digit, b2::CharClass::Space, b2::CharClass::Range(0x5B, 0x60)]).into_iter().map(|b| b as u8));
                v
            }),
            Box::new(|s| {
                let a = [b2::CharClass::Alpha];
                let b = [b2::CharClass::Digit, b2::CharClass::Space, b2::CharClass::Range(0x5B, 0x60)];
                let mut v: Vec<u8> = s.chars().map(|c| a.iter().any(|k| k.matches(c)) as u8).collect();
                v.push(9);
                v.extend(s.chars().map(|c| b.iter().any(|k| k.matches(c)) as u8));
                v
            }),
            ascii_class,
            "character-class matching (one verdict per char)",
        )));
        reg.add(Enum(mem::hash_spec("string::bmi2_string_ops::hash_string_bmi2", Box::new(|b, seed| b2::hash_string_bmi2(as_str(b), seed)), b2_scalar_hash, b2_hash_class, "vs hash_string_scalar: rotate_left(5)+byte")));
        reg.add(Enum(text::xform_spec(
            "string::bmi2_string_ops::detect_runs_bmi2",
            Box::new(|s| runs_bytes(b2::detect_runs_bmi2(s))),
            Box::new(|s| {
                let b = s.as_bytes();
                let mut v = Vec::new();
                let mut i = 0;
                while i < b.len() {
                    let mut j = i;
                    while j < b.len() && b[j] == b[i] {
                        j += 1;
                    }
                    v.push(b2::CharRun { character: b[i], start: i, length: j - i });
                    i = j;
                }
                runs_bytes(v)
            }),
            ascii_class,
            "run-length detection (byte runs)",
        )));
        reg.add(Enum(text::xform_spec(
            "string::bmi2_string_ops::compare_bulk_bmi2",
            Box::new(|s| {
                let p = b2::get_global_bmi2_processor();
                let mut out = Vec::new();
                let mut cuts: Vec<usize> = (0..=s.len()).filter(|&i| s.is_char_boundary(i)).collect();
                if cuts.len() > 40 {
                    let keep: Vec<usize> = cuts.iter().copied().filter(|&i| i < 20 || i + 20 > s.len() || i % 8 <= 1).collect();
                    cuts = keep;
                }
                for &c in &cuts {
                    let other = format!("{}#{}", &s[..c], &s[c..]);
                    let same = s.to_string();
                    let pairs = [(s, same.as_str()), (s, other.as_str()), (&s[..c], s), (&s[c..], &s[c..]), (other.as_str(), other.as_str())];
                    out.extend(p.compare_bulk_bmi2(&pairs).into_iter().map(|b| b as u8));
                }
                out
            }),
            Box::new(|s| {
                let mut out = Vec::new();
                let mut cuts: Vec<usize> = (0..=s.len()).filter(|&i| s.is_char_boundary(i)).collect();
                if cuts.len() > 40 {
                    let keep: Vec<usize> = cuts.iter().copied().filter(|&i| i < 20 || i + 20 > s.len() || i % 8 <= 1).collect();
                    cuts = keep;
                }
                for &c in &cuts {
                    let other = format!("{}#{}", &s[..c], &s[c..]);
                    let pairs = [(s, s), (s, other.as_str()), (&s[..c], s), (&s[c..], &s[c..]), (other.as_str(), other.as_str())];
                    out.extend(pairs.iter().map(|(a, b)| (a == b) as u8));
                }
                out
            }),
            ascii_class,
            "bulk string equality (5 pairs per cut position: equal, one byte inserted, prefix, equal suffix, equal)",
        )));

        // ---------------------------------------------------------------- CRC-32C (mask: yes, sse42)
        reg.add(Enum(codec::crc_spec()));

        // ---------------------------------------------------------------- Base64 / hex (no run-time dispatch left; mask: n/a)
        {
            use zipora::io::simd_encoding::base64 as b;
            reg.add(Enum(codec::codec_spec(codec::Codec {
                name: "io::simd_encoding::base64".into(),
                encs: vec![
                    ("encode_base64", Box::new(|d| e2s(b::encode_base64(d)).map(String::into_bytes))),
                    (
                        "encode_base64_to_buffer",
                        Box::new(|d| {
                            let mut buf = vec![0xEEu8; b::calculate_encoded_len(d.len())];
                            let n = e2s(b::encode_base64_to_buffer(d, &mut buf))?;
                            if n != buf.len() {
                                return Err(format!("wrote {n} bytes, calculate_encoded_len says {}", buf.len()));
                            }
                            Ok(buf)
                        }),
                    ),
                ],
                decs: vec![
                    ("decode_base64", Box::new(|t| std::str::from_utf8(t).ok().map(|s| e2s(b::decode_base64(s))))),
                    (
                        "decode_base64_from_buffer",
                        Box::new(|t| {
                            let mut buf = vec![0xEEu8; b::calculate_decoded_len(t.len()) + 3];
                            Some(e2s(b::decode_base64_from_buffer(t, &mut buf)).map(|n| buf[..n].to_vec()))
                        }),
                    ),
                ],
                ref_enc: Box::new(|d| codec::b64_ref_encode(d, false, true)),
                ref_dec: Box::new(|t| codec::b64_ref_decode(t, false, true)),
                dec_alphabet: codec::b64_dec_alphabet(),
            })));
            use zipora::system::base64 as sb;
            for (url, pad) in [(false, true), (false, false), (true, true), (true, false)] {
                let cfg = move || sb::Base64Config { url_safe: url, padding: pad, force_implementation: None };
                let mut encs: Vec<(&'static str, codec::EncFn)> = vec![
                    ("AdaptiveBase64::encode", Box::new(move |d| Ok(sb::AdaptiveBase64::with_config(cfg()).encode(d).into_bytes()))),
                    ("SimdBase64Encoder::encode", Box::new(move |d| Ok(sb::SimdBase64Encoder::with_config(cfg()).encode(d).into_bytes()))),
                ];
                let mut decs: Vec<(&'static str, codec::DecFn)> = vec![
                    ("AdaptiveBase64::decode", Box::new(move |t| std::str::from_utf8(t).ok().map(|s| e2s(sb::AdaptiveBase64::with_config(cfg()).decode(s))))),
                    ("SimdBase64Decoder::decode", Box::new(move |t| std::str::from_utf8(t).ok().map(|s| e2s(sb::SimdBase64Decoder::with_config(cfg()).decode(s))))),
                ];
                if !url && pad {
                    encs.push(("base64_encode_simd", Box::new(|d| Ok(sb::base64_encode_simd(d).into_bytes()))));
                    decs.push(("base64_decode_simd", Box::new(|t| std::str::from_utf8(t).ok().map(|s| e2s(sb::base64_decode_simd(s))))));
                }
                reg.add(Enum(codec::codec_spec(codec::Codec {
                    name: format!("system::base64[{},{}]", if url { "url" } else { "std" }, if pad { "pad" } else { "nopad" }),
                    encs,
                    decs,
                    ref_enc: Box::new(move |d| codec::b64_ref_encode(d, url, pad)),
                    ref_dec: Box::new(move |t| codec::b64_ref_decode(t, url, pad)),
                    dec_alphabet: codec::b64_dec_alphabet(),
                })));
            }
            use zipora::string as zs;
            reg.add(Enum(codec::codec_spec(codec::Codec {
                name: "string::hex".into(),
                encs: vec![
                    ("hex_encode", Box::new(|d| Ok(zs::hex_encode(d).into_bytes()))),
                    (
                        "hex_encode_upper",
                        Box::new(|d| {
                            let u = zs::hex_encode_upper(d);
                            if u != u.to_ascii_uppercase() {
                                return Err(format!("not upper case: {u}"));
                            }
                            Ok(u.to_ascii_lowercase().into_bytes())
                        }),
                    ),
                    ("hex_encode_to_bytes", Box::new(|d| Ok(zs::hex_encode_to_bytes(d)))),
                    (
                        "hex_encode_to_slice",
                        Box::new(|d| {
                            let mut buf = vec![0xEEu8; d.len() * 2];
                            let n = e2s(zs::hex_encode_to_slice(d, &mut buf))?;
                            buf.truncate(n);
                            Ok(buf)
                        }),
                    ),
                ],
                decs: vec![
                    ("hex_decode", Box::new(|t| std::str::from_utf8(t).ok().map(|s| e2s(zs::hex_decode(s))))),
                    ("hex_decode_bytes", Box::new(|t| Some(e2s(zs::hex_decode_bytes(t))))),
                    (
                        "hex_decode_to_slice",
                        Box::new(|t| {
                            let mut buf = vec![0xEEu8; t.len() / 2 + 1];
                            Some(e2s(zs::hex_decode_to_slice(t, &mut buf)).map(|n| buf[..n].to_vec()))
                        }),
                    ),
                    (
                        "is_valid_hex+parse_hex_byte",
                        Box::new(|t| {
                            let s = std::str::from_utf8(t).ok()?;
                            if !zs::is_valid_hex(s) {
                                return Some(Err("is_valid_hex == false".into()));
                            }
                            Some(t.chunks(2).map(|p| zs::parse_hex_byte(p[0], p[1]).ok_or_else(|| "parse_hex_byte == None".to_string())).collect())
                        }),
                    ),
                ],
                ref_enc: Box::new(|d| d.iter().flat_map(|b| [b"0123456789abcdef"[(b >> 4) as usize], b"0123456789abcdef"[(b & 15) as usize]]).collect()),
                ref_dec: Box::new(codec::hex_ref_decode),
                dec_alphabet: codec::hex_dec_alphabet(),
            })));
        }

        // ---------------------------------------------------------------- bit helpers (mask: yes; software config forces the fallbacks)
        reg.add(Enum(bits::bitops_spec("entropy::bit_ops::BitOps[detected]", BitOps::new, EntropyBitOps::new)));
        reg.add(Enum(bits::bitops_spec("entropy::bit_ops::BitOps[software config]", || BitOps::with_config(bits::software_config()), || EntropyBitOps::with_config(bits::software_config()))));
        reg.add(Enum(bits::dispatcher_spec("entropy::bit_ops::CompressionBmi2Dispatcher[optimizations off]", || {
            let mut c = bits::software_config();
            c.enable_compression_optimizations = false;
            c.enable_variable_length_decoding = false;
            c.enable_entropy_acceleration = false;
            CompressionBmi2Dispatcher::with_config(c)
        })));
        // (registered after the software configuration: a known finding with subject `...Dispatcher*` is replayed on the first match)
        reg.add(Enum(bits::dispatcher_spec("entropy::bit_ops::CompressionBmi2Dispatcher[detected]", CompressionBmi2Dispatcher::new)));

        // ---------------------------------------------------------------- histogram counting
        reg.add(Enum(bits::histogram_spec("entropy::fse::FseEncoder::analyze_frequencies[hardware.avx2=on]", true)));
        reg.add(Enum(bits::histogram_spec("entropy::fse::FseEncoder::analyze_frequencies[hardware.avx2=off]", false)));
    });
}
