//! CRC-32C, Base64 (both modules) and hex.

use crate::common::*;
use zverif::util::{brief, hex, unhex};
use zverif::{Outcome, Tier};

// ------------------------------------------------------------------------------------------------
// CRC-32C

/// bitwise Castagnoli definition (reflected polynomial 0x82F63B78), no init / final xor
fn crc_bitwise(mut crc: u32, data: &[u8]) -> u32 {
    for &b in data {
        crc ^= b as u32;
        for _ in 0..8 {
            crc = if crc & 1 != 0 { (crc >> 1) ^ 0x82F6_3B78 } else { crc >> 1 };
        }
    }
    crc
}

pub fn crc_spec() -> Spec {
    use zipora::io::simd_validation::checksum::{crc32c, crc32c_finalize, crc32c_hash, crc32c_update};
    let gen = move |tier: Tier, out: &mut dyn FnMut(Case) -> bool| {
        for n in all_lens() {
            for a in one_aligns(tier) {
                for c in CONTENTS {
                    if !out(Case { n, a, c, ..Default::default() }) {
                        return;
                    }
                }
            }
        }
    };
    let run = move |case: &Case| -> Outcome {
        let n = case.n as usize;
        let data = place(0, case.a, &content(case.c, n));
        let want = !crc_bitwise(0xFFFF_FFFF, data);
        let tail = match n % 8 {
            0 => "n%8=0",
            1 => "n%8=1",
            2 | 3 => "n%8=2-3",
            _ => "n%8=4-7",
        };
        match crc32c_hash(data) {
            Ok(got) if got == want => {}
            other => return fail("crc_one_shot", tail, format!("crc32c_hash(len={n}, align={}, {}) = {other:x?}, bitwise Castagnoli definition gives {want:#010x}", case.a, cname(case.c))),
        }
        for init in [0u32, 0xFFFF_FFFF, 0x1234_5678] {
            let w = crc_bitwise(init, data);
            match crc32c(data, init) {
                Ok(got) if got == w => {}
                other => return fail("crc_raw", tail, format!("crc32c(len={n}, init={init:#x}) = {other:x?}, bitwise definition gives {w:#010x}")),
            }
        }
        // incremental == one shot, split at EVERY position (and a three-way split)
        for s in 0..=n {
            arena().progress(s as u64);
            let r = crc32c_update(0xFFFF_FFFF, &data[..s]).and_then(|c| crc32c_update(c, &data[s..])).map(crc32c_finalize);
            match r {
                Ok(got) if got == want => {}
                other => return fail("crc_incremental", tail, format!("len={n} align={} split at {s}: incremental = {other:x?}, one-shot/bitwise = {want:#010x}", case.a)),
            }
            if s >= 1 && s < n {
                let r = crc32c_update(0xFFFF_FFFF, &data[..1]).and_then(|c| crc32c_update(c, &data[1..s])).and_then(|c| crc32c_update(c, &data[s..])).map(crc32c_finalize);
                match r {
                    Ok(got) if got == want => {}
                    other => return fail("crc_incremental", tail, format!("len={n} split at 1 and {s}: incremental = {other:x?}, one-shot/bitwise = {want:#010x}")),
                }
            }
        }
        if n == 0 {
            Outcome::trivial("n=0")
        } else {
            Outcome::pass(&format!("{}/{}", lc(n), tail))
        }
    };
    Spec {
        name: "io::simd_validation::checksum::crc32c".into(),
        space: "CRC-32C: every length 0..=260 x alignment {quick: 16; thorough: 0..63} + guard-ended x contents {ascending, >=0x80, embedded NUL}; crc32c_hash and crc32c(init in {0,FFFFFFFF,12345678}) == bitwise Castagnoli definition; crc32c_update split at EVERY position (2-way and 1|s|rest 3-way) then crc32c_finalize == one shot".into(),
        gen: Box::new(gen),
        run: Box::new(run),
        isolate: false,
        fault_class: default_fault_class,
    }
}

// ------------------------------------------------------------------------------------------------
// codecs (Base64, hex): reference definitions

const STD: &[u8; 64] = b"ABCDEFGHIJKLMNOPQRSTUVWXYZabcdefghijklmnopqrstuvwxyz0123456789+/";
const URL: &[u8; 64] = b"ABCDEFGHIJKLMNOPQRSTUVWXYZabcdefghijklmnopqrstuvwxyz0123456789-_";

pub fn b64_ref_encode(data: &[u8], url: bool, pad: bool) -> Vec<u8> {
    let al = if url { URL } else { STD };
    let mut out = Vec::new();
    for ch in data.chunks(3) {
        let b = [ch[0], *ch.get(1).unwrap_or(&0), *ch.get(2).unwrap_or(&0)];
        let v = (b[0] as u32) << 16 | (b[1] as u32) << 8 | b[2] as u32;
        out.push(al[(v >> 18) as usize & 63]);
        out.push(al[(v >> 12) as usize & 63]);
        if ch.len() > 1 {
            out.push(al[(v >> 6) as usize & 63]);
        } else if pad {
            out.push(b'=');
        }
        if ch.len() > 2 {
            out.push(al[v as usize & 63]);
        } else if pad {
            out.push(b'=');
        }
    }
    out
}

#[derive(Debug, PartialEq)]
pub enum RefDec {
    /// canonical encoding of these bytes: decode must return them
    Strict(Vec<u8>),
    /// alphabet and quantum are fine, padding count or trailing bits are not canonical: Err or Ok(these bytes)
    Lenient(Vec<u8>),
    /// not an encoding of anything: must be Err
    Malformed,
}

pub fn b64_ref_decode(s: &[u8], url: bool, pad: bool) -> RefDec {
    let al = if url { URL } else { STD };
    let pads = s.iter().rev().take_while(|&&c| c == b'=').count();
    let body = &s[..s.len() - pads];
    let mut vals = Vec::with_capacity(body.len());
    for &c in body {
        match al.iter().position(|&x| x == c) {
            Some(v) => vals.push(v as u32),
            None => return RefDec::Malformed,
        }
    }
    if body.len() % 4 == 1 {
        return RefDec::Malformed;
    }
    let mut out = Vec::new();
    let mut canonical = true;
    for q in vals.chunks(4) {
        let v = q.iter().fold(0u32, |acc, &x| acc << 6 | x) << (6 * (4 - q.len()));
        out.push((v >> 16) as u8);
        if q.len() > 2 {
            out.push((v >> 8) as u8);
        }
        if q.len() > 3 {
            out.push(v as u8);
        }
        if (q.len() == 2 && v & 0xFFFF != 0) || (q.len() == 3 && v & 0xFF != 0) {
            canonical = false;
        }
    }
    let want_pads = if pad { (4 - body.len() % 4) % 4 } else { 0 };
    if pads != want_pads {
        canonical = false;
    }
    if canonical {
        RefDec::Strict(out)
    } else {
        RefDec::Lenient(out)
    }
}

pub fn hex_ref_decode(s: &[u8]) -> RefDec {
    if s.len() % 2 != 0 {
        return RefDec::Malformed;
    }
    let nib = |c: u8| -> Option<u8> {
        match c {
            b'0'..=b'9' => Some(c - b'0'),
            b'a'..=b'f' => Some(c - b'a' + 10),
            b'A'..=b'F' => Some(c - b'A' + 10),
            _ => None,
        }
    };
    let mut out = Vec::new();
    for p in s.chunks(2) {
        match (nib(p[0]), nib(p[1])) {
            (Some(h), Some(l)) => out.push(h << 4 | l),
            _ => return RefDec::Malformed,
        }
    }
    RefDec::Strict(out)
}

pub type EncFn = Box<dyn Fn(&[u8]) -> Result<Vec<u8>, String>>;
/// `None` = this entry point cannot be given the input (a &str API and the bytes are not UTF-8)
pub type DecFn = Box<dyn Fn(&[u8]) -> Option<Result<Vec<u8>, String>>>;

pub struct Codec {
    pub name: String,
    pub encs: Vec<(&'static str, EncFn)>,
    pub decs: Vec<(&'static str, DecFn)>,
    pub ref_enc: Box<dyn Fn(&[u8]) -> Vec<u8>>,
    pub ref_dec: Box<dyn Fn(&[u8]) -> RefDec>,
    /// decode alphabet: one representative per class
    pub dec_alphabet: Vec<Vec<u8>>,
}

/// upper, lower, digit, '+', '/', '-', '_', '=', space, NUL, 0x80 (as U+0080 for &str entry points and raw)
pub fn b64_dec_alphabet() -> Vec<Vec<u8>> {
    let mut v: Vec<Vec<u8>> = [b'Q', b'g', b'4', b'+', b'/', b'-', b'_', b'=', b' ', 0u8].iter().map(|&c| vec![c]).collect();
    v.push(vec![0xC2, 0x80]);
    v.push(vec![0x80]);
    v
}
/// hex: digit, lower a-f, upper A-F, 'g', 'G', space, NUL, '=', 0x80 (U+0080 and raw), 'x'
pub fn hex_dec_alphabet() -> Vec<Vec<u8>> {
    let mut v: Vec<Vec<u8>> = [b'7', b'c', b'E', b'g', b'G', b' ', 0u8, b'=', b'x', b'0'].iter().map(|&c| vec![c]).collect();
    v.push(vec![0xC2, 0x80]);
    v.push(vec![0x80]);
    v
}

const ENC4: [u8; 4] = [0x00, 0xFF, 0x14, 0xFB];

pub fn codec_spec(cd: Codec) -> Spec {
    let nalpha = cd.dec_alphabet.len();
    let name = cd.name.clone();
    let gen = move |_tier: Tier, out: &mut dyn FnMut(Case) -> bool| {
        // v=0: encode all inputs of length <= 2 over 256 bytes (case = first byte / empty; second byte looped)
        if !out(Case { v: 0, d: String::new(), ..Default::default() }) {
            return;
        }
        for x in 0..=255u8 {
            if !out(Case { v: 0, d: hex(&[x]), ..Default::default() }) {
                return;
            }
        }
        // v=1: encode all inputs of length <= 6 over 4 bytes (case = first <= 3 bytes; rest looped)
        let mut ok = true;
        zverif::util::all_strings(&ENC4, 3, &mut |p| {
            ok = out(Case { v: 1, d: hex(p), ..Default::default() });
            ok
        });
        if !ok {
            return;
        }
        // v=2: decode all strings of length <= 4 over the class representatives (case = first <= 2 symbols)
        let idx: Vec<u8> = (0..nalpha as u8).collect();
        zverif::util::all_strings(&idx, 2, &mut |p| {
            ok = out(Case { v: 2, d: hex(p), ..Default::default() });
            ok
        });
        if !ok {
            return;
        }
        // v=3: length grid
        for n in all_lens() {
            for c in CONTENTS {
                if !out(Case { v: 3, n, c, ..Default::default() }) {
                    return;
                }
            }
        }
        // v=4 (coverage audit): EVERY byte value 0..=255 at every symbol position of a short text of otherwise valid
        // symbols (the class representatives of v=2 are interior points: '/' ':' '@' 'G' '`' 'g', 'A'/'F'/'a'/'f'/'0'/'9'
        // and the neighbours of the Base64 alphabet ranges are only reached here)
        for x in 0..=255u32 {
            if !out(Case { v: 4, k: x, ..Default::default() }) {
                return;
            }
        }
    };
    let run = move |case: &Case| -> Outcome {
        let check_enc = |input: &[u8]| -> Option<Outcome> {
            let want = (cd.ref_enc)(input);
            for (ename, e) in &cd.encs {
                match e(input) {
                    Ok(got) if got == want => {}
                    Ok(got) => return Some(fail("encode_vs_definition", format!("{ename}/wrong_text"), format!("{ename}({}) = {:?}, definition gives {:?}", brief(input), String::from_utf8_lossy(&got), String::from_utf8_lossy(&want)))),
                    Err(e) => return Some(fail("encode_vs_definition", format!("{ename}/err"), format!("{ename}({}) returned Err({e})", brief(input)))),
                }
            }
            // inverse: every decoder returns the input for the reference encoding
            for (dname, d) in &cd.decs {
                match d(&want) {
                    None => {}
                    Some(Ok(back)) if back == input => {}
                    Some(other) => return Some(fail("decode_inverse", format!("{dname}/roundtrip"), format!("{dname}(encode({})) = {:?}", brief(input), other.map(|v| brief(&v))))),
                }
            }
            None
        };
        let check_dec = |text: &[u8]| -> Option<Outcome> {
            let want = (cd.ref_dec)(text);
            for (dname, d) in &cd.decs {
                let Some(got) = d(text) else { continue };
                let bad = match (&want, &got) {
                    (RefDec::Strict(v), Ok(g)) => (g != v).then_some("wrong_value"),
                    (RefDec::Strict(_), Err(_)) => Some("rejects_canonical"),
                    (RefDec::Lenient(v), Ok(g)) => (g != v).then_some("wrong_value"),
                    (RefDec::Lenient(_), Err(_)) => None,
                    (RefDec::Malformed, Ok(_)) => Some("accepts_malformed"),
                    (RefDec::Malformed, Err(_)) => None,
                };
                if let Some(kind) = bad {
                    return Some(fail("decode_vs_definition", format!("{dname}/{kind}"), format!("{dname}({:?} = {}) = {:?}, definition says {:?}", String::from_utf8_lossy(text), hex(text), got.as_ref().map(|v| brief(v)), want)));
                }
            }
            None
        };
        let Some(prefix) = unhex(&case.d) else { return Outcome::skip("bad case") };
        match case.v {
            0 => {
                if let Some(o) = check_enc(&prefix) {
                    return o;
                }
                if prefix.len() == 1 {
                    for y in 0..=255u8 {
                        if let Some(o) = check_enc(&[prefix[0], y]) {
                            return o;
                        }
                    }
                }
                Outcome::pass("enc/len<=2_over_256")
            }
            1 => {
                let mut res = None;
                let maxext = if prefix.len() == 3 { 3 } else { 0 };
                zverif::util::all_strings(&ENC4, maxext, &mut |e| {
                    let mut s = prefix.clone();
                    s.extend_from_slice(e);
                    res = check_enc(&s);
                    res.is_none()
                });
                res.unwrap_or_else(|| Outcome::pass("enc/len<=6_over_4"))
            }
            2 => {
                let mut res = None;
                let idx: Vec<u8> = (0..nalpha as u8).collect();
                let maxext = if prefix.len() == 2 { 2 } else { 0 };
                let (mut ok, mut lenient, mut malformed) = (0u32, 0u32, 0u32);
                zverif::util::all_strings(&idx, maxext, &mut |e| {
                    let mut text = Vec::new();
                    for &i in prefix.iter().chain(e.iter()) {
                        text.extend_from_slice(&cd.dec_alphabet[i as usize]);
                    }
                    match (cd.ref_dec)(&text) {
                        RefDec::Strict(_) => ok += 1,
                        RefDec::Lenient(_) => lenient += 1,
                        RefDec::Malformed => malformed += 1,
                    }
                    res = check_dec(&text);
                    res.is_none()
                });
                res.unwrap_or_else(|| Outcome::pass(&format!("dec/strict{}/lenient{}/malformed{}", ok.min(1), lenient.min(1), malformed.min(1))))
            }
            4 => {
                let x = case.k as u8;
                let filler = cd.dec_alphabet[0][0];
                let (mut ok, mut lenient, mut malformed) = (0u32, 0u32, 0u32);
                for l in 1..=4usize {
                    for pos in 0..l {
                        for pads in 0..=2usize {
                            let mut text = vec![filler; l];
                            text[pos] = x;
                            text.extend(std::iter::repeat(b'=').take(pads));
                            match (cd.ref_dec)(&text) {
                                RefDec::Strict(_) => ok += 1,
                                RefDec::Lenient(_) => lenient += 1,
                                RefDec::Malformed => malformed += 1,
                            }
                            if let Some(o) = check_dec(&text) {
                                return o;
                            }
                        }
                    }
                }
                Outcome::pass(&format!("dec_every_byte/strict{}/lenient{}/malformed{}", ok.min(1), lenient.min(1), malformed.min(1)))
            }
            _ => {
                let n = case.n as usize;
                let data = content(case.c, n);
                if let Some(o) = check_enc(&data) {
                    return o;
                }
                // a corrupted encoding of the same data: one symbol replaced by a non-alphabet byte at three positions
                let enc = (cd.ref_enc)(&data);
                for p in [0, enc.len() / 2, enc.len().saturating_sub(1)] {
                    if p < enc.len() {
                        let mut bad = enc.clone();
                        bad[p] = b'!';
                        if let Some(o) = check_dec(&bad) {
                            return o;
                        }
                    }
                }
                if n == 0 {
                    Outcome::trivial("n=0")
                } else {
                    Outcome::pass(&format!("grid/{}/n%3={}", lc(n), n % 3))
                }
            }
        }
    };
    Spec {
        name,
        space: format!("codec: encode of ALL inputs of length <= 2 over 256 byte values and <= 6 over {{00,FF,14,FB}}, each followed by decode(encode(x))==x through every decode entry point; decode of ALL strings of <= 4 symbols over {nalpha} class representatives (incl. '=', space, NUL, U+0080 and raw 0x80 where the entry point takes bytes); every length 0..=260 x contents {{ascending, >=0x80, embedded NUL}} encode + decode of the encoding with '!' at positions 0, mid, last; decode of EVERY byte value 0..=255 at every position of texts of 1..=4 otherwise valid symbols followed by 0..=2 '='; oracle: RFC 4648 / hex definition (canonical -> exact bytes; non-canonical padding or trailing bits -> Err or the same bytes; anything else -> Err)"),
        gen: Box::new(gen),
        run: Box::new(run),
        isolate: false,
        fault_class: default_fault_class,
    }
}
