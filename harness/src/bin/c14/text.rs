//! UTF-8 validation / counting / decoding families and &str -> value transforms (bmi2_string_ops).

use crate::common::*;
use zverif::util::{hex, unhex};
use zverif::{Outcome, Tier};

pub const BOUNDARY: [u8; 18] = [0x00, 0x41, 0x7F, 0x80, 0x8F, 0x90, 0x9F, 0xA0, 0xBF, 0xC0, 0xC2, 0xE0, 0xED, 0xEF, 0xF0, 0xF4, 0xF5, 0xFF];
pub const OFFSETS: [u32; 4] = [0, 13, 29, 61];
const PADDED_LEN: usize = 96;
/// content class of the UTF-8 length grid added by the coverage audit (CONTENTS = 0,1,2 stay as they were)
pub const C_MIXED: u8 = 3;

/// exactly `n` bytes of valid UTF-8 cycling through characters of every width, including the first and the last
/// code point of each width and both sides of the surrogate gap; the cycle starts at index n % 10 so that different
/// lengths put the multi-byte characters at different phases relative to the 8/16/32/64-byte vector chunks; the
/// tail is padded with 'z' when the next character does not fit
pub fn utf8_mixed(n: usize) -> Vec<u8> {
    const CYCLE: [char; 10] = ['a', '\u{80}', '\u{800}', '\u{10000}', 'b', '\u{7FF}', '\u{D7FF}', '\u{10FFFF}', '\u{E000}', '\u{FFFF}'];
    let mut v = Vec::with_capacity(n);
    let mut i = n % 10;
    let mut tmp = [0u8; 4];
    while v.len() < n {
        let e = CYCLE[i % 10].encode_utf8(&mut tmp).as_bytes();
        if v.len() + e.len() <= n {
            v.extend_from_slice(e);
        } else {
            v.push(b'z');
        }
        i += 1;
    }
    v
}

#[derive(Debug, PartialEq, Clone)]
pub enum U8Out {
    /// verdict only
    Valid(bool),
    /// Some(number of chars) iff valid
    Count(Option<usize>),
    /// Some(code points) iff valid
    Chars(Option<Vec<u32>>),
    /// Some(UTF-16 units) iff valid
    Utf16(Option<Vec<u16>>),
}

#[derive(Clone, Copy)]
pub enum U8Kind {
    Valid,
    Count,
    Chars,
    Utf16,
}

fn std_answer(kind: U8Kind, b: &[u8]) -> U8Out {
    let s = std::str::from_utf8(b).ok();
    match kind {
        U8Kind::Valid => U8Out::Valid(s.is_some()),
        U8Kind::Count => U8Out::Count(s.map(|s| s.chars().count())),
        U8Kind::Chars => U8Out::Chars(s.map(|s| s.chars().map(|c| c as u32).collect())),
        U8Kind::Utf16 => U8Out::Utf16(s.map(|s| s.encode_utf16().collect())),
    }
}

fn is_some(o: &U8Out) -> bool {
    match o {
        U8Out::Valid(v) => *v,
        U8Out::Count(c) => c.is_some(),
        U8Out::Chars(c) => c.is_some(),
        U8Out::Utf16(c) => c.is_some(),
    }
}

pub type U8Fn = Box<dyn Fn(&[u8]) -> U8Out>;

pub fn utf8_spec(name: &str, kind: U8Kind, f: U8Fn, isolate: bool) -> Spec {
    let gen = move |tier: Tier, out: &mut dyn FnMut(Case) -> bool| {
        // small scope: prefixes of length 0,1,2 over the boundary bytes; prefixes of length 2 are extended in `run`
        let mut prefixes: Vec<Vec<u8>> = vec![vec![]];
        for &x in &BOUNDARY {
            prefixes.push(vec![x]);
        }
        for &x in &BOUNDARY {
            for &y in &BOUNDARY {
                prefixes.push(vec![x, y]);
            }
        }
        let ext = tier.pick(1u32, 2u32);
        for p in &prefixes {
            for &o in &OFFSETS {
                for v in [0u8, 1] {
                    if !out(Case { a: G, k: o, v, n: ext, d: hex(p), ..Default::default() }) {
                        return;
                    }
                }
            }
        }
        // length grid: whole buffers of valid text of every length
        for n in all_lens() {
            for a in one_aligns(tier) {
                for c in CONTENTS {
                    if !out(Case { n, a, c, v: 2, ..Default::default() }) {
                        return;
                    }
                }
            }
        }
        // (coverage audit) the same grid with mixed-width text: 1/2/3/4-byte characters incl. the first and last code
        // point of every width, phase rotated with the length
        for n in all_lens() {
            for a in one_aligns(tier) {
                if !out(Case { n, a, c: C_MIXED, v: 2, ..Default::default() }) {
                    return;
                }
            }
        }
    };
    let run = move |case: &Case| -> Outcome {
        let judge = |buf: &[u8], what: &str| -> Option<Outcome> {
            let got = f(buf);
            let want = std_answer(kind, buf);
            if got != want {
                let class = match (is_some(&got), is_some(&want)) {
                    (true, false) => "accepts_invalid",
                    (false, true) => "rejects_valid",
                    _ => "wrong_value",
                };
                let multi = if buf.iter().any(|&b| b >= 0x80) { "non_ascii" } else { "ascii" };
                return Some(fail(
                    "utf8_vs_std",
                    format!("{class}/{multi}"),
                    format!("{what}: buffer {} -> got {:?}, std says {:?}", zverif::util::brief(buf), got, want),
                ));
            }
            None
        };
        if case.v == 2 {
            let n = case.n as usize;
            let base = if case.c == C_MIXED { utf8_mixed(n) } else { content_str(case.c, n) };
            let buf = place(0, case.a, &base);
            if let Some(o) = judge(buf, "valid text") {
                return o;
            }
            if case.c == C_MIXED {
                // every character replaced, one at a time, by an INVALID sequence of the same length and shape
                // (lone continuation / overlong / surrogate / beyond U+10FFFF)
                let starts: Vec<(usize, usize)> = as_str(&base).char_indices().map(|(i, ch)| (i, ch.len_utf8())).collect();
                for (i, w) in starts {
                    arena().progress(i as u64);
                    let bad: &[u8] = match w {
                        1 => &[0x80],
                        2 => &[0xC0, 0xAF],
                        3 => &[0xED, 0xA0, 0x80],
                        _ => &[0xF4, 0x90, 0x80, 0x80],
                    };
                    buf[i..i + w].copy_from_slice(bad);
                    if let Some(o) = judge(buf, &format!("{w}-byte character at {i} replaced by {}", hex(bad))) {
                        return o;
                    }
                    buf[i..i + w].copy_from_slice(&base[i..i + w]);
                }
            }
            // one invalid byte at every position
            for p in 0..n {
                arena().progress(p as u64);
                buf[p] = 0xFF;
                if let Some(o) = judge(buf, &format!("0xFF at {p}")) {
                    return o;
                }
                buf[p] = base[p];
            }
            // truncated two-byte char at the very end
            if n >= 1 {
                buf[n - 1] = 0xC3;
                if let Some(o) = judge(buf, "lead byte at the end") {
                    return o;
                }
            }
            return if n == 0 { Outcome::trivial("n=0") } else { Outcome::pass(&format!("grid/{}/{}", lc(n), if case.c == C_MIXED { "mixed_width" } else { cname(case.c) })) };
        }
        let Some(prefix) = unhex(&case.d) else { return Outcome::skip("bad case") };
        let ext = case.n as usize;
        let o = case.k as usize;
        let mut strings: Vec<Vec<u8>> = vec![prefix.clone()];
        if prefix.len() == 2 {
            for &x in &BOUNDARY {
                let mut s = prefix.clone();
                s.push(x);
                strings.push(s.clone());
                if ext >= 2 {
                    for &y in &BOUNDARY {
                        let mut t = s.clone();
                        t.push(y);
                        strings.push(t);
                    }
                }
            }
        }
        let (mut valid, mut invalid) = (0u32, 0u32);
        for (i, s) in strings.iter().enumerate() {
            arena().progress(i as u64);
            let total = if case.v == 1 { PADDED_LEN } else { o + s.len() };
            let mut v = vec![b'p'; total];
            v[o..o + s.len()].copy_from_slice(s);
            let buf = place(0, G, &v);
            if let Some(out) = judge(buf, &format!("string {} at offset {o} of {total} bytes", hex(s))) {
                return out;
            }
            if std::str::from_utf8(&v).is_ok() {
                valid += 1;
            } else {
                invalid += 1;
            }
        }
        Outcome::pass(&format!("scope/off{o}/{}/{}", if case.v == 1 { "padded" } else { "at_end" }, if valid > 0 && invalid > 0 { "mixed" } else if valid > 0 { "all_valid" } else { "all_invalid" }))
    };
    Spec {
        name: name.to_string(),
        space: "UTF-8: ALL strings of length <= 4 (quick: <= 3) over the 18 boundary bytes {00,41,7F,80,8F,90,9F,A0,BF,C0,C2,E0,ED,EF,F0,F4,F5,FF} embedded at offset {0,13,29,61} of ASCII padding, either ending the buffer or padded to 96 bytes, buffer guard-ended (one case = a prefix of <= 2 bytes, extensions looped inside); plus every length 0..=260 x alignment {quick: 16; thorough: 0..63} + guard-ended x valid contents {ASCII, two-byte chars, embedded NUL, mixed 1/2/3/4-byte characters incl. U+80, U+7FF, U+800, U+D7FF, U+E000, U+FFFF, U+10000, U+10FFFF with the phase rotated by the length} with 0xFF planted at EVERY position and a lead byte at the end, and for the mixed-width text EVERY character replaced by an invalid sequence of its own length (80 / C0 AF / ED A0 80 / F4 90 80 80); oracle: std::str::from_utf8 verdict and chars()/encode_utf16()".into(),
        gen: Box::new(gen),
        run: Box::new(run),
        isolate,
        fault_class: default_fault_class,
    }
}

// ------------------------------------------------------------------------------------------------
// &str -> value transforms with a scalar definition

pub type XformFn = Box<dyn Fn(&str) -> Vec<u8>>;
pub type XformClass = fn(&str) -> String;

pub fn content_text(c: u8, n: usize) -> Vec<u8> {
    if c == 3 {
        let pat = b"Hello, World! THE quick brown FOX 0123456789 [jumps]{OVER}~lazy^dog@Z`a\t\n";
        (0..n).map(|i| pat[i % pat.len()]).collect()
    } else if c == 4 {
        // Latin Extended-A, U+0100..U+017F: two-byte chars whose code point truncated to u8 aliases ASCII
        let mut v = Vec::with_capacity(n);
        if n % 2 == 1 {
            v.push(b'a');
        }
        let mut i = 0usize;
        while v.len() < n {
            let x = (i * 5 + 0x20) % 128;
            v.push(if x < 64 { 0xC4 } else { 0xC5 });
            v.push(0x80 + (x % 64) as u8);
            i += 1;
        }
        v
    } else if c == 5 {
        // (coverage audit) byte runs of length 1,2,3,7,8,9,16,17,1,1 (around the 8-byte chunk of the BMI2 paths) over
        // characters on both sides of the ASCII case / class boundaries
        const LENS: [usize; 10] = [1, 2, 3, 7, 8, 9, 16, 17, 1, 1];
        const CHARS: [u8; 10] = *b"aAzZ09 \t@_";
        let mut v = Vec::with_capacity(n);
        let mut r = 0usize;
        while v.len() < n {
            for _ in 0..LENS[r % 10] {
                if v.len() < n {
                    v.push(CHARS[(r * 7) % 10]);
                }
            }
            r += 1;
        }
        v
    } else {
        content_str(c, n)
    }
}

pub fn xform_spec(name: &str, f: XformFn, oracle: XformFn, class: XformClass, what: &str) -> Spec {
    let gen = move |tier: Tier, out: &mut dyn FnMut(Case) -> bool| {
        for n in all_lens() {
            for a in one_aligns(tier) {
                for c in 0..6u8 {
                    if !out(Case { n, a, c, ..Default::default() }) {
                        return;
                    }
                }
            }
        }
    };
    let run = move |case: &Case| -> Outcome {
        let n = case.n as usize;
        let buf = place(0, case.a, &content_text(case.c, n));
        let s = as_str(buf);
        let got = f(s);
        let want = oracle(s);
        if got != want {
            let p = got.iter().zip(&want).position(|(x, y)| x != y).unwrap_or(got.len().min(want.len()));
            return fail(
                "transform_vs_scalar",
                class(s),
                format!("input len={n} align={} content={}: result differs from the scalar definition at output byte {p} (got {} bytes {}, want {} bytes {})", case.a, case.c, got.len(), zverif::util::brief(&got[p.min(got.len())..]), want.len(), zverif::util::brief(&want[p.min(want.len())..])),
            );
        }
        if n == 0 {
            Outcome::trivial("n=0")
        } else {
            Outcome::pass(&format!("{}/c{}", lc(n), case.c))
        }
    };
    Spec {
        name: name.to_string(),
        space: format!("{what}: every input length 0..=260 x alignment {{quick: 16; thorough: 0..63}} + guard-ended x valid-UTF-8 contents {{ASCII ascending, two-byte chars U+00E0.., embedded NUL, mixed-case ASCII text, two-byte chars U+0100..U+017F, byte runs of length 1,2,3,7,8,9,16,17}}; oracle: the scalar fallback definition in the same function"),
        gen: Box::new(gen),
        run: Box::new(run),
        isolate: false,
        fault_class: default_fault_class,
    }
}

// ------------------------------------------------------------------------------------------------
// wildcard matching: small scope

pub type WildFn = Box<dyn Fn(&str, &str) -> bool>;

/// glob semantics of `wildcard_match_scalar`: `*` = any sequence, `?` = any one char, anchored at both ends
fn glob(text: &[u8], pat: &[u8]) -> bool {
    let (n, m) = (text.len(), pat.len());
    let mut dp = vec![vec![false; m + 1]; n + 1];
    dp[n][m] = true;
    for j in (0..m).rev() {
        dp[n][j] = pat[j] == b'*' && dp[n][j + 1];
    }
    for i in (0..n).rev() {
        for j in (0..m).rev() {
            dp[i][j] = match pat[j] {
                b'*' => dp[i][j + 1] || dp[i + 1][j],
                b'?' => dp[i + 1][j + 1],
                c => text[i] == c && dp[i + 1][j + 1],
            };
        }
    }
    dp[0][0]
}

pub fn wildcard_spec(name: &str, f: WildFn) -> Spec {
    let gen = move |tier: Tier, out: &mut dyn FnMut(Case) -> bool| {
        let alpha = [b'a', b'b', b'*', b'?'];
        let maxp = tier.pick(4usize, 5usize);
        zverif::util::all_strings(&alpha, maxp, &mut |p| {
            if p.len() < 3 {
                return true;
            }
            out(Case { d: hex(p), n: tier.pick(8, 9), ..Default::default() })
        });
    };
    let run = move |case: &Case| -> Outcome {
        let Some(pat) = unhex(&case.d) else { return Outcome::skip("bad case") };
        let pat_s = String::from_utf8(pat.clone()).unwrap();
        let maxn = case.n as usize;
        let (mut yes, mut no) = (0u32, 0u32);
        for n in 7..=maxn {
            for bits in 0..(1u32 << n) {
                let text: Vec<u8> = (0..n).map(|i| if bits >> i & 1 == 1 { b'b' } else { b'a' }).collect();
                let t = place(0, G, &text);
                let got = f(as_str(t), &pat_s);
                let want = glob(&text, &pat);
                if got != want {
                    return fail(
                        "wildcard_vs_scalar",
                        format!("{}/{}", if got { "false_accept" } else { "false_reject" }, if n >= 8 && pat.len() >= 4 { "text>=8,pattern>=4" } else { "short" }),
                        format!("text {:?} pattern {:?}: got {got}, glob definition (= wildcard_match_scalar) says {want}", String::from_utf8_lossy(&text), pat_s),
                    );
                }
                if want {
                    yes += 1
                } else {
                    no += 1
                }
            }
        }
        Outcome::pass(if yes > 0 && no > 0 { "mixed" } else if yes > 0 { "all_match" } else { "none_match" })
    };
    Spec {
        name: name.to_string(),
        space: "wildcard match: ALL patterns of length 3..=5 (quick: 3..=4) over {a,b,*,?} x ALL texts of length 7..=9 (quick: 7..=8) over {a,b} (the accelerated path needs text>=8, pattern>=4), text guard-ended; oracle: glob semantics of the module's wildcard_match_scalar".into(),
        gen: Box::new(gen),
        run: Box::new(run),
        isolate: false,
        fault_class: default_fault_class,
    }
}
