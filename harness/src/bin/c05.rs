//! C05 — a trie is exactly the set of keys inserted and not removed (engine E1).
//!
//! One `TrieLike` adapter per trie type; one generic `TrieSpec` that steps the real trie and a
//! `BTreeSet<Vec<u8>>` in lock-step.  Every operation is "where offered": an adapter returns `None` for an
//! operation the type does not have, and the corresponding clause is skipped.
//!
//! Oracle = the property's own sentence: after every step
//!   * `contains(k)`  == k ∈ model                              (clause `contains`; all keys of the alphabet + absent probes)
//!   * `len()`        == |model|                                 (clause `len`; this is also where "re-inserting changes nothing" shows)
//!   * `keys()`       as a set == model                          (clause `keys`)
//!   * `keys_with_prefix(p)` as a set == {k ∈ model : k starts with p}   (clause `keys_with_prefix`)
//!   * `accepts(k)`   == k ∈ model                               (clause `accepts`)
//!   * `longest_prefix(q)` == max{|k| : k ∈ model, k prefix of q}       (clause `longest_prefix`)
//! `insert`/`remove` returning `Err` is a refusal (model unchanged).  The *return value* of `remove` is not part
//! of the statement and is not judged; `remove(k)` returning `Ok(_)` means "k is not a member afterwards".
//!
//! Views.  The engine does not extend a history whose visit failed.  Where one observer group is broken for
//! every history (e.g. `keys()` of the LOUDS storage decodes a different format than `insert` writes), the full
//! subject cannot get past depth 1; additional *projection* subjects (`/set`, `/fsa`) observe one group only so
//! that the remaining clauses are still checked on longer histories.  Projections are additions, the full-oracle
//! subject is always registered as well.

use std::collections::hash_map::DefaultHasher;
use std::collections::BTreeSet;
use std::hash::Hash;
use std::path::Path;
use zverif::seq::{Seq, SeqSpec};
use zverif::{check, Fail, Tier};

use zipora::concurrency::ParallelLoudsTrie;
use zipora::fsa::dawg::NestedTrieDawg;
use zipora::fsa::traits::PrefixIterable;
use zipora::fsa::{
    CompressedSparseTrie, ConcurrencyLevel, DoubleArrayTrie, DoubleArrayTrieConfig, FiniteStateAutomaton, NestedLoudsTrie, NestingConfig,
    SimpleDawg, Trie, ZiporaTrie, ZiporaTrieConfig,
};
use zipora::memory::{SecureMemoryPool, SecurePoolConfig};
use zipora::succinct::RankSelectInterleaved256;

// ---------------------------------------------------------------------------------------------
// stderr gag: the double-array code prints several `eprintln!("DEBUG ...")` lines per call when
// debug assertions are on (the profile the checks run in).  fd 2 is pointed at /dev/null while a trie
// object is alive and restored afterwards, so that the driver's stderr files stay small and the
// REPLAY verdict line is still printed.

pub struct StderrGag {
    saved: libc::c_int,
}

impl StderrGag {
    pub fn new() -> StderrGag {
        if std::env::var_os("ZV_C05_NOGAG").is_some() {
            return StderrGag { saved: -1 };
        }
        unsafe {
            let saved = libc::dup(2);
            let fd = libc::open(b"/dev/null\0".as_ptr() as *const libc::c_char, libc::O_WRONLY);
            if fd >= 0 {
                libc::dup2(fd, 2);
                libc::close(fd);
            }
            StderrGag { saved }
        }
    }
}

impl Drop for StderrGag {
    fn drop(&mut self) {
        unsafe {
            if self.saved >= 0 {
                libc::dup2(self.saved, 2);
                libc::close(self.saved);
            }
        }
    }
}

// ---------------------------------------------------------------------------------------------
// adapter

pub trait TrieLike {
    /// `Err` = refused (nothing may change)
    fn insert(&mut self, k: &[u8]) -> Result<(), String>;
    /// `None` = not offered; `Some(Err)` = refused
    fn remove(&mut self, _k: &[u8]) -> Option<Result<bool, String>> {
        None
    }
    /// second insertion entry point (`insert_and_get_node_id`); `None` = not offered
    fn insert_id(&mut self, _k: &[u8]) -> Option<Result<(), String>> {
        None
    }
    fn contains(&self, k: &[u8]) -> bool;
    fn len(&self) -> Option<usize> {
        None
    }
    fn keys(&self) -> Option<Vec<Vec<u8>>> {
        None
    }
    fn keys_with_prefix(&self, _p: &[u8]) -> Option<Vec<Vec<u8>>> {
        None
    }
    fn accepts(&self, _k: &[u8]) -> Option<bool> {
        None
    }
    fn longest_prefix(&self, _q: &[u8]) -> Option<Option<usize>> {
        None
    }
    /// (coverage audit) further enumeration entry points: `(name, result)` of `iter_all()` (`p = None`) /
    /// `iter_prefix(p)`, inherent and through the `PrefixIterable` trait; empty = not offered
    fn iter_views(&self, _p: Option<&[u8]>) -> Vec<(&'static str, Vec<Vec<u8>>)> {
        Vec::new()
    }
    /// (coverage audit) `Clone`; `None` = not offered
    fn clone_box(&self) -> Option<Box<dyn TrieLike>> {
        None
    }
    /// (coverage audit) `shrink_to_fit()` (a maintenance operation that must not change the key set); false = not offered
    fn shrink_to_fit(&mut self) -> bool {
        false
    }
}

impl TrieLike for ZiporaTrie {
    fn iter_views(&self, p: Option<&[u8]>) -> Vec<(&'static str, Vec<Vec<u8>>)> {
        match p {
            None => vec![
                ("iter_all()", ZiporaTrie::iter_all(self).collect()),
                ("PrefixIterable::iter_all()", PrefixIterable::iter_all(self).collect()),
            ],
            Some(p) => vec![
                ("iter_prefix", ZiporaTrie::iter_prefix(self, p).collect()),
                ("PrefixIterable::iter_prefix", PrefixIterable::iter_prefix(self, p).collect()),
            ],
        }
    }
    fn clone_box(&self) -> Option<Box<dyn TrieLike>> {
        Some(Box::new(self.clone()))
    }
    fn shrink_to_fit(&mut self) -> bool {
        ZiporaTrie::shrink_to_fit(self);
        true
    }
    fn insert(&mut self, k: &[u8]) -> Result<(), String> {
        ZiporaTrie::insert(self, k).map_err(|e| e.to_string())
    }
    fn remove(&mut self, k: &[u8]) -> Option<Result<bool, String>> {
        Some(ZiporaTrie::remove(self, k).map_err(|e| e.to_string()))
    }
    fn insert_id(&mut self, k: &[u8]) -> Option<Result<(), String>> {
        Some(self.insert_and_get_node_id(k).map(|_| ()).map_err(|e| e.to_string()))
    }
    fn contains(&self, k: &[u8]) -> bool {
        ZiporaTrie::contains(self, k)
    }
    fn len(&self) -> Option<usize> {
        Some(ZiporaTrie::len(self))
    }
    fn keys(&self) -> Option<Vec<Vec<u8>>> {
        Some(ZiporaTrie::keys(self))
    }
    fn keys_with_prefix(&self, p: &[u8]) -> Option<Vec<Vec<u8>>> {
        Some(ZiporaTrie::keys_with_prefix(self, p))
    }
    fn accepts(&self, k: &[u8]) -> Option<bool> {
        Some(FiniteStateAutomaton::accepts(self, k))
    }
    fn longest_prefix(&self, q: &[u8]) -> Option<Option<usize>> {
        Some(FiniteStateAutomaton::longest_prefix(self, q))
    }
}

/// The three legacy wrapper structs offer the same reduced surface: insert / contains / len + the FSA view.
macro_rules! wrapper_trielike {
    ($t:ty) => {
        impl TrieLike for $t {
            fn insert(&mut self, k: &[u8]) -> Result<(), String> {
                <$t>::insert(self, k).map_err(|e| e.to_string())
            }
            fn contains(&self, k: &[u8]) -> bool {
                <$t>::contains(self, k)
            }
            fn len(&self) -> Option<usize> {
                Some(<$t>::len(self))
            }
            fn accepts(&self, k: &[u8]) -> Option<bool> {
                Some(FiniteStateAutomaton::accepts(self, k))
            }
            fn longest_prefix(&self, q: &[u8]) -> Option<Option<usize>> {
                Some(FiniteStateAutomaton::longest_prefix(self, q))
            }
        }
    };
}
wrapper_trielike!(DoubleArrayTrie);
wrapper_trielike!(NestedLoudsTrie<RankSelectInterleaved256>);
wrapper_trielike!(CompressedSparseTrie);

/// (coverage audit) `DoubleArrayTrie` with its `shrink_to_fit()` offered as a mutator.
pub struct DatShrink(pub DoubleArrayTrie);
impl TrieLike for DatShrink {
    fn insert(&mut self, k: &[u8]) -> Result<(), String> {
        self.0.insert(k).map_err(|e| e.to_string())
    }
    fn contains(&self, k: &[u8]) -> bool {
        self.0.contains(k) && self.0.lookup(k).is_some()
    }
    fn len(&self) -> Option<usize> {
        Some(self.0.len())
    }
    fn accepts(&self, k: &[u8]) -> Option<bool> {
        Some(FiniteStateAutomaton::accepts(&self.0, k))
    }
    fn longest_prefix(&self, q: &[u8]) -> Option<Option<usize>> {
        Some(FiniteStateAutomaton::longest_prefix(&self.0, q))
    }
    fn shrink_to_fit(&mut self) -> bool {
        self.0.shrink_to_fit();
        true
    }
}

/// (coverage audit) `NestedTrieDawg` (src/fsa/dawg.rs) through its `Trie` / `FiniteStateAutomaton` impls.
pub struct Dawg(pub NestedTrieDawg);
impl TrieLike for Dawg {
    fn insert(&mut self, k: &[u8]) -> Result<(), String> {
        Trie::insert(&mut self.0, k).map(|_| ()).map_err(|e| e.to_string())
    }
    fn contains(&self, k: &[u8]) -> bool {
        Trie::contains(&self.0, k)
    }
    fn len(&self) -> Option<usize> {
        Some(Trie::len(&self.0))
    }
    fn accepts(&self, k: &[u8]) -> Option<bool> {
        Some(self.0.accepts(k))
    }
    fn longest_prefix(&self, q: &[u8]) -> Option<Option<usize>> {
        Some(self.0.longest_prefix(q))
    }
}

/// The same wrapper driven through its `Trie` trait impl (`Trie::insert` / `Trie::contains` / `Trie::len`).
pub struct ViaTrait<T: Trie>(pub T);
impl<T: Trie> TrieLike for ViaTrait<T> {
    fn insert(&mut self, k: &[u8]) -> Result<(), String> {
        Trie::insert(&mut self.0, k).map(|_| ()).map_err(|e| e.to_string())
    }
    fn contains(&self, k: &[u8]) -> bool {
        Trie::contains(&self.0, k)
    }
    fn len(&self) -> Option<usize> {
        Some(Trie::len(&self.0))
    }
    fn accepts(&self, k: &[u8]) -> Option<bool> {
        Some(self.0.accepts(k))
    }
    fn longest_prefix(&self, q: &[u8]) -> Option<Option<usize>> {
        Some(self.0.longest_prefix(q))
    }
}

impl TrieLike for SimpleDawg {
    fn insert(&mut self, k: &[u8]) -> Result<(), String> {
        SimpleDawg::insert(self, k).map_err(|e| e.to_string())
    }
    fn contains(&self, k: &[u8]) -> bool {
        SimpleDawg::contains(self, k)
    }
    fn len(&self) -> Option<usize> {
        Some(self.num_keys())
    }
}

/// ParallelLoudsTrie has an async API only; it is used sequentially through `block_on` (no runtime needed:
/// the only await points are uncontended `tokio::sync::Mutex` locks).
pub struct Par(pub ParallelLoudsTrie);
impl TrieLike for Par {
    fn insert(&mut self, k: &[u8]) -> Result<(), String> {
        futures::executor::block_on(self.0.insert(k)).map(|_| ()).map_err(|e| e.to_string())
    }
    fn contains(&self, k: &[u8]) -> bool {
        futures::executor::block_on(self.0.contains(k))
    }
    fn len(&self) -> Option<usize> {
        Some(futures::executor::block_on(self.0.len()))
    }
    fn keys_with_prefix(&self, p: &[u8]) -> Option<Vec<Vec<u8>>> {
        let mut r = futures::executor::block_on(self.0.parallel_prefix_search(vec![p.to_vec()]));
        if r.len() == 1 {
            r.pop()
        } else {
            Some(vec![b"<parallel_prefix_search returned the wrong number of result lists>".to_vec()])
        }
    }
}

/// (coverage audit) the bulk entry points of ParallelLoudsTrie: `bulk_insert([k])` and `parallel_contains([k])`.
pub struct ParBulk(pub ParallelLoudsTrie);
impl TrieLike for ParBulk {
    fn insert(&mut self, k: &[u8]) -> Result<(), String> {
        // the key twice in one batch: the second occurrence is a re-insertion
        futures::executor::block_on(self.0.bulk_insert(vec![k.to_vec(), k.to_vec()])).map(|_| ()).map_err(|e| e.to_string())
    }
    fn contains(&self, k: &[u8]) -> bool {
        let r = futures::executor::block_on(self.0.parallel_contains(vec![k.to_vec(), k.to_vec()]));
        r.len() == 2 && r[0] && r[1]
    }
    fn len(&self) -> Option<usize> {
        Some(futures::executor::block_on(self.0.len()))
    }
}

// ---------------------------------------------------------------------------------------------
// keys

fn key_a70() -> Vec<u8> {
    vec![b'a'; 70]
}
fn key_a65b() -> Vec<u8> {
    let mut v = vec![b'a'; 65];
    v.push(b'b');
    v
}

/// DESIGN §7 C05: empty key, prefixes of each other, 0x00 / 0xFF bytes, keys beyond max_path_length = 64.
fn k10() -> Vec<Vec<u8>> {
    vec![
        b"".to_vec(),
        b"a".to_vec(),
        b"ab".to_vec(),
        b"abc".to_vec(),
        b"b".to_vec(),
        b"a\0".to_vec(),
        b"\xff".to_vec(),
        b"ab\xff".to_vec(),
        key_a70(),
        key_a65b(),
    ]
}
fn k4() -> Vec<Vec<u8>> {
    vec![b"".to_vec(), b"a".to_vec(), b"ab".to_vec(), b"b".to_vec()]
}
/// Keys over {a, b} of length 2..3: in the double-array storage the states of `a` (98) and `b` (99) get the same
/// base (state/4 = 24), and so do their children, so almost every insertion hits an occupied slot and relocates a
/// state that already has children and grandchildren.
fn k_collide() -> Vec<Vec<u8>> {
    ["aa", "ba", "ab", "bb", "aaa", "aba", "baa", "bba"].iter().map(|s| s.as_bytes().to_vec()).collect()
}
fn k3() -> Vec<Vec<u8>> {
    vec![b"".to_vec(), b"a".to_vec(), b"ab".to_vec()]
}


// ---- coverage audit: additional alphabets ---------------------------------------------------

/// "arbitrary byte values": keys that *start* with 0x00 / 0xff / 0x80, two keys that share a prefix through a 0x00 byte,
/// 0x00 0x00 (in the double-array storage the child of state 1 on symbol 0 is state 1 itself).
fn k_bytes() -> Vec<Vec<u8>> {
    vec![b"\0".to_vec(), b"\0\0".to_vec(), b"\0\xff".to_vec(), b"\xff\0".to_vec(), b"\xff\xff".to_vec(), b"\x80".to_vec(), b"a\0".to_vec(), b"a\0b".to_vec()]
}
fn k_bytes_probes() -> Vec<Vec<u8>> {
    vec![b"\xff".to_vec(), b"\0\0\0".to_vec(), b"a\0a".to_vec(), b"\x80\x80".to_vec(), b"\x7f".to_vec(), b"\0\x01".to_vec()]
}
/// Double-array storage: `aa` puts a state on slot 24 + 97 = 121 = 1 + 'x', i.e. on the slot the *root* wants for its child `x`,
/// and `ab` on 122 = 1 + 'y': inserting `x` / `y` afterwards relocates the root (all first-level states move and every
/// second-level state has to be re-parented).
fn k_rootmove() -> Vec<Vec<u8>> {
    ["aa", "x", "xy", "b", "", "ab", "y"].iter().map(|s| s.as_bytes().to_vec()).collect()
}
/// LOUDS record store: one length byte per record, keys longer than 255 bytes are refused.
fn k_len255() -> Vec<Vec<u8>> {
    let mut a255b = vec![b'a'; 255];
    a255b.push(b'b');
    vec![vec![b'a'; 254], vec![b'a'; 255], vec![b'a'; 256], a255b, vec![b'b'; 255], b"".to_vec()]
}
/// LOUDS record store: keys whose bytes look like the record of another key (`[len][bytes]`).
fn k_recordlike() -> Vec<Vec<u8>> {
    vec![b"a".to_vec(), b"\x01a".to_vec(), b"\0".to_vec(), b"".to_vec(), b"ab".to_vec(), b"\x02ab".to_vec(), b"\x01a\x01a".to_vec()]
}
fn ins_all(keys: &[Vec<u8>]) -> Vec<Op> {
    keys.iter().map(|k| Op::Insert(k.clone())).collect()
}

/// Stable printable name of a key (used in operation names, i.e. in witnesses).
fn kname(k: &[u8]) -> String {
    if k.is_empty() {
        return "<empty>".to_string();
    }
    if k.len() > 16 {
        // run-length form: a*70, a*65+b
        let mut parts: Vec<String> = Vec::new();
        let mut i = 0;
        while i < k.len() {
            let mut j = i;
            while j < k.len() && k[j] == k[i] {
                j += 1;
            }
            let c = (k[i] as char).escape_default().to_string();
            parts.push(if j - i > 1 { format!("{}*{}", c, j - i) } else { c });
            i = j;
        }
        return parts.join("+");
    }
    k.iter().map(|b| if b.is_ascii_graphic() { (*b as char).to_string() } else { format!("\\x{:02x}", b) }).collect()
}

// ---------------------------------------------------------------------------------------------
// the spec

#[derive(Clone)]
pub enum Op {
    Insert(Vec<u8>),
    InsertId(Vec<u8>),
    Remove(Vec<u8>),
    /// (coverage audit) replace the trie by `trie.clone()`; the key set must be unchanged
    CloneSwap,
    /// (coverage audit) `shrink_to_fit()`; the key set must be unchanged
    ShrinkToFit,
}

impl std::fmt::Debug for Op {
    fn fmt(&self, f: &mut std::fmt::Formatter<'_>) -> std::fmt::Result {
        match self {
            Op::Insert(k) => write!(f, "Insert({})", kname(k)),
            Op::InsertId(k) => write!(f, "InsertId({})", kname(k)),
            Op::Remove(k) => write!(f, "Remove({})", kname(k)),
            Op::CloneSwap => write!(f, "CloneSwap"),
            Op::ShrinkToFit => write!(f, "ShrinkToFit"),
        }
    }
}

#[derive(Clone, Copy)]
pub struct Views {
    pub contains: bool,
    pub len: bool,
    /// keys + keys_with_prefix
    pub enumerate: bool,
    /// accepts + longest_prefix
    pub fsa: bool,
}
const ALL: Views = Views { contains: true, len: true, enumerate: true, fsa: true };
/// contains + len
const SET: Views = Views { contains: true, len: true, enumerate: false, fsa: false };
const CONTAINS: Views = Views { contains: true, len: false, enumerate: false, fsa: false };
const FSA: Views = Views { contains: false, len: false, enumerate: false, fsa: true };

pub struct St {
    trie: Box<dyn TrieLike>,
    model: BTreeSet<Vec<u8>>,
    _gag: StderrGag,
}

pub struct TrieSpec {
    pub name: String,
    pub make: Box<dyn Fn() -> Result<Box<dyn TrieLike>, String>>,
    pub keys: Vec<Vec<u8>>,
    pub with_insert: bool,
    pub with_insert_id: bool,
    pub with_remove: bool,
    pub views: Views,
    pub depth_quick: usize,
    pub depth_thorough: usize,
    pub note: &'static str,
    /// (coverage audit) `CloneSwap` / `ShrinkToFit` are in the alphabet (where the type offers them)
    pub with_clone: bool,
    pub with_shrink: bool,
    /// (coverage audit) scripted prefix applied to trie and model in `init` (start state other than the empty trie)
    pub prefix: Vec<Op>,
    /// (coverage audit) keys the constructor already put into the trie (`NestedTrieDawg::build_from_keys`)
    pub built_with: Vec<Vec<u8>>,
    /// (coverage audit) extra probes for contains/accepts/longest_prefix
    pub extra_probes: Vec<Vec<u8>>,
}

impl TrieSpec {
    fn contains_probes(&self) -> Vec<Vec<u8>> {
        let mut v = self.keys.clone();
        for extra in [b"ac".to_vec(), b"abcd".to_vec(), vec![b'a'; 69], b"\0".to_vec()] {
            if !v.contains(&extra) {
                v.push(extra);
            }
        }
        for extra in self.extra_probes.iter().chain(self.built_with.iter()) {
            if !v.contains(extra) {
                v.push(extra.clone());
            }
        }
        v
    }
    fn prefix_probes(&self) -> Vec<Vec<u8>> {
        let mut v = vec![b"".to_vec(), b"a".to_vec(), b"ab".to_vec(), b"b".to_vec(), b"\xff".to_vec(), b"zz".to_vec(), vec![b'a'; 64]];
        for extra in &self.extra_probes {
            if !v.contains(extra) {
                v.push(extra.clone());
            }
        }
        v
    }
    fn lp_probes(&self) -> Vec<Vec<u8>> {
        let mut v = self.keys.clone();
        for extra in [b"abcz".to_vec(), b"b\0".to_vec(), vec![b'a'; 71]] {
            if !v.contains(&extra) {
                v.push(extra);
            }
        }
        for extra in self.extra_probes.iter().chain(self.built_with.iter()) {
            if !v.contains(extra) {
                v.push(extra.clone());
            }
        }
        v
    }
}

fn set_of(v: Vec<Vec<u8>>) -> BTreeSet<Vec<u8>> {
    v.into_iter().collect()
}
fn show(s: &BTreeSet<Vec<u8>>) -> String {
    format!("{{{}}}", s.iter().map(|k| kname(k)).collect::<Vec<_>>().join(", "))
}

impl SeqSpec for TrieSpec {
    type Op = Op;
    type St = St;

    fn name(&self) -> String {
        self.name.clone()
    }
    fn depth(&self, tier: Tier) -> usize {
        tier.pick(self.depth_quick, self.depth_thorough)
    }
    fn bound(&self, tier: Tier) -> String {
        let mut muts = Vec::new();
        if self.with_insert {
            muts.push("insert(k)");
        }
        if self.with_insert_id {
            muts.push("insert_and_get_node_id(k)");
        }
        if self.with_remove {
            muts.push("remove(k)");
        }
        if self.with_clone {
            muts.push("t = t.clone()");
        }
        if self.with_shrink {
            muts.push("shrink_to_fit()");
        }
        let mut obs = Vec::new();
        if self.views.contains {
            obs.push("contains on K + {ac, abcd, a*69, \\x00}");
        }
        if self.views.len {
            obs.push("len");
        }
        if self.views.enumerate {
            obs.push("keys() as a set, keys_with_prefix(p) for p in {<empty>, a, ab, b, \\xff, zz, a*64}, iter_all()/iter_prefix(p) (inherent and PrefixIterable) likewise");
        }
        if self.views.fsa {
            obs.push("accepts on K + absent probes, longest_prefix(q) for q in K + {abcz, b\\x00, a*71}");
        }
        let mut start = String::new();
        if !self.built_with.is_empty() {
            start.push_str(&format!(" starting from an object built from {{{}}}", self.built_with.iter().map(|k| kname(k)).collect::<Vec<_>>().join(", ")));
        }
        if !self.prefix.is_empty() {
            start.push_str(&format!(" after the scripted prefix {:?}", self.prefix));
        }
        let mut probes = String::new();
        if !self.extra_probes.is_empty() {
            probes = format!("; extra probes {{{}}}", self.extra_probes.iter().map(|k| kname(k)).collect::<Vec<_>>().join(", "));
        }
        format!(
            "all histories of <= {} mutators from {{{}}} over K = {{{}}}{}; observers after every step (each where offered): {}{}{}",
            self.depth(tier),
            muts.join(", "),
            self.keys.iter().map(|k| kname(k)).collect::<Vec<_>>().join(", "),
            start,
            obs.join("; "),
            probes,
            if self.note.is_empty() { String::new() } else { format!("; {}", self.note) }
        )
    }
    fn init(&self, _scratch: &Path) -> Result<St, Fail> {
        let gag = StderrGag::new();
        let trie = (self.make)().map_err(|e| Fail::new("construct", e))?;
        let mut st = St { trie, model: self.built_with.iter().cloned().collect(), _gag: gag };
        for op in &self.prefix {
            self.apply(&mut st, op)?;
        }
        Ok(st)
    }
    fn ops(&self, _st: &St) -> Vec<Op> {
        let mut v = Vec::new();
        if self.with_insert {
            for k in &self.keys {
                v.push(Op::Insert(k.clone()));
            }
        }
        if self.with_insert_id {
            for k in &self.keys {
                v.push(Op::InsertId(k.clone()));
            }
        }
        if self.with_remove {
            for k in &self.keys {
                v.push(Op::Remove(k.clone()));
            }
        }
        if self.with_clone {
            v.push(Op::CloneSwap);
        }
        if self.with_shrink {
            v.push(Op::ShrinkToFit);
        }
        v
    }
    fn apply(&self, st: &mut St, op: &Op) -> Result<(), Fail> {
        match op {
            // a refusal leaves the model unchanged, but only the refusals the unchanged library makes as well are tolerated
            // (label: operation, key length class, whether the key is a member)
            Op::Insert(k) => {
                if st.trie.insert(k).is_ok() {
                    st.model.insert(k.clone());
                } else {
                    zverif::core::tolerate_refusal(&self.name(), &format!("insert/klen{}/member={}", if k.len() > 255 { ">255" } else if k.len() > 64 { ">64" } else { "<=64" }, st.model.contains(k)), &kname(k))?;
                }
            }
            Op::InsertId(k) => match st.trie.insert_id(k) {
                Some(Ok(())) => {
                    st.model.insert(k.clone());
                }
                Some(Err(_)) => {
                    zverif::core::tolerate_refusal(&self.name(), &format!("insert_id/klen{}/member={}", if k.len() > 255 { ">255" } else if k.len() > 64 { ">64" } else { "<=64" }, st.model.contains(k)), &kname(k))?;
                }
                None => {}
            },
            Op::Remove(k) => match st.trie.remove(k) {
                Some(Ok(_)) => {
                    st.model.remove(k);
                }
                Some(Err(_)) => {
                    zverif::core::tolerate_refusal(&self.name(), &format!("remove/member={}", st.model.contains(k)), &kname(k))?;
                }
                None => {}
            },
            Op::CloneSwap => {
                if let Some(c) = st.trie.clone_box() {
                    st.trie = c;
                }
            }
            Op::ShrinkToFit => {
                let _ = st.trie.shrink_to_fit();
            }
        }
        Ok(())
    }
    fn observe(&self, st: &mut St, h: &mut DefaultHasher) -> Result<(), Fail> {
        st.model.hash(h);
        let t = &st.trie;
        let m = &st.model;
        if self.views.contains {
            for k in self.contains_probes() {
                let c = t.contains(&k);
                check!(c == m.contains(&k), "contains", "contains({}) = {c}, model {}", kname(&k), show(m));
            }
        }
        if self.views.len {
            if let Some(l) = t.len() {
                check!(l == m.len(), "len", "len() = {l}, model {} has {}", show(m), m.len());
            }
        }
        if self.views.enumerate {
            if let Some(ks) = t.keys() {
                let got = set_of(ks);
                check!(&got == m, "keys", "keys() = {}, model {}", show(&got), show(m));
            }
            for (what, ks) in t.iter_views(None) {
                let got = set_of(ks);
                check!(&got == m, "keys", "{what} = {}, model {}", show(&got), show(m));
            }
            for p in self.prefix_probes() {
                if let Some(ks) = t.keys_with_prefix(&p) {
                    let got = set_of(ks);
                    let want: BTreeSet<Vec<u8>> = m.iter().filter(|k| k.starts_with(&p)).cloned().collect();
                    check!(got == want, "keys_with_prefix", "keys_with_prefix({}) = {}, expected {}", kname(&p), show(&got), show(&want));
                }
                for (what, ks) in t.iter_views(Some(&p)) {
                    let got = set_of(ks);
                    let want: BTreeSet<Vec<u8>> = m.iter().filter(|k| k.starts_with(&p)).cloned().collect();
                    check!(got == want, "keys_with_prefix", "{what}({}) = {}, expected {}", kname(&p), show(&got), show(&want));
                }
            }
        }
        if self.views.fsa {
            for k in self.contains_probes() {
                if let Some(a) = t.accepts(&k) {
                    check!(a == m.contains(&k), "accepts", "accepts({}) = {a}, model {}", kname(&k), show(m));
                }
            }
            for q in self.lp_probes() {
                if let Some(lp) = t.longest_prefix(&q) {
                    let want = m.iter().filter(|k| q.starts_with(k)).map(|k| k.len()).max();
                    check!(lp == want, "longest_prefix", "longest_prefix({}) = {:?}, expected {:?}, model {}", kname(&q), lp, want, show(m));
                }
            }
        }
        Ok(())
    }
}

// ---------------------------------------------------------------------------------------------
// subject constructors

type Make = Box<dyn Fn() -> Result<Box<dyn TrieLike>, String>>;

fn spec(name: &str, make: Make, keys: Vec<Vec<u8>>, with_remove: bool, views: Views, dq: usize, dt: usize) -> TrieSpec {
    TrieSpec {
        name: name.to_string(),
        make,
        keys,
        with_insert: true,
        with_insert_id: false,
        with_remove,
        views,
        depth_quick: dq,
        depth_thorough: dt,
        note: "",
        with_clone: false,
        with_shrink: false,
        prefix: Vec::new(),
        built_with: Vec::new(),
        extra_probes: Vec::new(),
    }
}

fn pool() -> std::sync::Arc<SecureMemoryPool> {
    SecureMemoryPool::new(SecurePoolConfig::small_secure()).expect("SecureMemoryPool::new(small_secure)")
}

fn zt(cfg: fn() -> ZiporaTrieConfig) -> Make {
    Box::new(move || Ok(Box::new(ZiporaTrie::with_config(cfg())) as Box<dyn TrieLike>))
}

fn cfg_default() -> ZiporaTrieConfig {
    ZiporaTrieConfig::default()
}
fn cfg_chp() -> ZiporaTrieConfig {
    ZiporaTrieConfig::concurrent_high_performance(pool())
}

fn noted(mut s: TrieSpec, note: &'static str) -> Seq<TrieSpec> {
    s.note = note;
    Seq(s)
}

const PROJ: &str = "projection of the full-oracle subject of the same type (the engine stops at the first failing clause)";

fn main() {
    zverif::main_with("C05", |reg, _tier| {
        // ---- Patricia storage (default, cache_optimized): the only storage with a remove implementation -> full alphabet
        reg.add(Seq(spec("ZiporaTrie[default]", zt(cfg_default), k10(), true, ALL, 3, 5)));
        reg.add(Seq(spec("ZiporaTrie[default]/k4", zt(cfg_default), k4(), true, ALL, 5, 7)));
        reg.add(Seq(spec("ZiporaTrie[cache_optimized]", zt(ZiporaTrieConfig::cache_optimized), k10(), true, ALL, 3, 4)));
        reg.add(Seq(spec("ZiporaTrie[cache_optimized]/k4", zt(ZiporaTrieConfig::cache_optimized), k4(), true, ALL, 5, 6)));
        // second insertion entry point of the same type
        let mut s = spec("ZiporaTrie[default]/insert_and_get_node_id", zt(cfg_default), k3(), true, ALL, 4, 5);
        s.with_insert = false;
        s.with_insert_id = true;
        reg.add(Seq(s));

        // ---- the other strategies.  `ZiporaTrie::remove` has no arm for them (returns Ok(false) and keeps the key), so
        //      every history with a remove of a present key fails; the K10 subjects are therefore insert-only and the remove
        //      clause is checked by the small `ZiporaTrie.remove[..]` subjects below.
        const INS_ONLY: &str = "insert-only: remove is checked by the ZiporaTrie.remove[..] subject of this preset";
        reg.add(noted(spec("ZiporaTrie[sparse_optimized]", zt(ZiporaTrieConfig::sparse_optimized), k10(), false, ALL, 4, 5), INS_ONLY));
        reg.add(noted(spec("ZiporaTrie[concurrent_high_performance]", zt(cfg_chp), k10(), false, ALL, 4, 5), INS_ONLY));
        reg.add(noted(
            spec("ZiporaTrie[concurrent_high_performance]/collide", zt(cfg_chp), k_collide(), false, ALL, 4, 5),
            "insert-only; alphabet chosen so that double-array slots collide and states with children are relocated",
        ));
        // LOUDS storage: keys() and the FSA view are wrong after any insert -> full oracle on K3, projections for the rest
        reg.add(noted(spec("ZiporaTrie[space_optimized]", zt(ZiporaTrieConfig::space_optimized), k3(), false, ALL, 3, 4), INS_ONLY));
        reg.add(noted(spec("ZiporaTrie[space_optimized]/set", zt(ZiporaTrieConfig::space_optimized), k10(), false, SET, 4, 5), PROJ));
        reg.add(noted(spec("ZiporaTrie[space_optimized]/fsa", zt(ZiporaTrieConfig::space_optimized), k3(), false, FSA, 3, 4), PROJ));
        // critical-bit storage: insert/contains are stubs, nothing to project
        reg.add(noted(spec("ZiporaTrie[string_specialized]", zt(ZiporaTrieConfig::string_specialized), k3(), false, ALL, 3, 4), INS_ONLY));
        // remove on the storages without a remove arm (contains + len observed only, so that LOUDS gets past keys())
        reg.add(noted(spec("ZiporaTrie.remove[sparse_optimized]", zt(ZiporaTrieConfig::sparse_optimized), k3(), true, SET, 4, 5), PROJ));
        reg.add(noted(spec("ZiporaTrie.remove[concurrent_high_performance]", zt(cfg_chp), k3(), true, SET, 4, 5), PROJ));
        reg.add(noted(spec("ZiporaTrie.remove[space_optimized]", zt(ZiporaTrieConfig::space_optimized), k3(), true, SET, 4, 5), PROJ));

        // ---- legacy wrappers (PatriciaTrie / CritBitTrie are plain aliases of ZiporaTrie -> ZiporaTrie[default]); none offers remove/keys
        reg.add(Seq(spec("DoubleArrayTrie/new", Box::new(|| Ok(Box::new(DoubleArrayTrie::new()) as Box<dyn TrieLike>)), k10(), false, ALL, 4, 5)));
        reg.add(noted(
            spec("DoubleArrayTrie/new/collide", Box::new(|| Ok(Box::new(DoubleArrayTrie::new()) as Box<dyn TrieLike>)), k_collide(), false, ALL, 4, 5),
            "alphabet chosen so that double-array slots collide and states with children are relocated",
        ));
        reg.add(Seq(spec(
            "DoubleArrayTrie[initial_capacity=1]/via-Trie-trait",
            Box::new(|| {
                let mut c = DoubleArrayTrieConfig::default();
                c.initial_capacity = 1;
                Ok(Box::new(ViaTrait(DoubleArrayTrie::with_config(c))) as Box<dyn TrieLike>)
            }),
            k10(),
            false,
            ALL,
            3,
            4,
        )));
        let nlt_new: fn() -> Result<Box<dyn TrieLike>, String> =
            || NestedLoudsTrie::<RankSelectInterleaved256>::new().map(|t| Box::new(t) as Box<dyn TrieLike>).map_err(|e| e.to_string());
        let nlt_cfg: fn() -> Result<Box<dyn TrieLike>, String> = || {
            let mut c = NestingConfig::default();
            c.max_levels = 1;
            c.cache_optimization = false;
            NestedLoudsTrie::<RankSelectInterleaved256>::with_config(c).map(|t| Box::new(ViaTrait(t)) as Box<dyn TrieLike>).map_err(|e| e.to_string())
        };
        reg.add(Seq(spec("NestedLoudsTrie/new", Box::new(nlt_new), k3(), false, ALL, 3, 4)));
        reg.add(noted(spec("NestedLoudsTrie/new/set", Box::new(nlt_new), k10(), false, SET, 4, 5), PROJ));
        reg.add(Seq(spec("NestedLoudsTrie[max_levels=1]/via-Trie-trait", Box::new(nlt_cfg), k3(), false, ALL, 3, 4)));
        reg.add(noted(spec("NestedLoudsTrie[max_levels=1]/via-Trie-trait/set", Box::new(nlt_cfg), k10(), false, SET, 3, 4), PROJ));
        reg.add(Seq(spec(
            "CompressedSparseTrie/new",
            Box::new(|| CompressedSparseTrie::new(ConcurrencyLevel::SingleThreadStrict).map(|t| Box::new(t) as Box<dyn TrieLike>).map_err(|e| e.to_string())),
            k10(),
            false,
            ALL,
            4,
            5,
        )));
        reg.add(Seq(spec(
            "CompressedSparseTrie/via-Trie-trait",
            Box::new(|| CompressedSparseTrie::new(ConcurrencyLevel::SingleThreadStrict).map(|t| Box::new(ViaTrait(t)) as Box<dyn TrieLike>).map_err(|e| e.to_string())),
            k10(),
            false,
            ALL,
            3,
            4,
        )));

        // ---- SimpleDawg (insert / contains / num_keys), ParallelLoudsTrie (async API driven sequentially)
        reg.add(Seq(spec("SimpleDawg", Box::new(|| Ok(Box::new(SimpleDawg::new()) as Box<dyn TrieLike>)), k3(), false, ALL, 4, 5)));
        reg.add(noted(spec("SimpleDawg/contains", Box::new(|| Ok(Box::new(SimpleDawg::new()) as Box<dyn TrieLike>)), k10(), false, CONTAINS, 4, 5), PROJ));
        reg.add(Seq(spec("ParallelLoudsTrie/sequential", Box::new(|| Ok(Box::new(Par(ParallelLoudsTrie::new())) as Box<dyn TrieLike>)), k3(), false, ALL, 3, 4)));
        reg.add(noted(
            spec("ParallelLoudsTrie/sequential/contains+prefix", Box::new(|| Ok(Box::new(Par(ParallelLoudsTrie::new())) as Box<dyn TrieLike>)), k4(), false, Views { contains: true, len: false, enumerate: true, fsa: false }, 3, 4),
            PROJ,
        ));

        // =====================================================================================
        // coverage audit (notes/C05.md "## Coverage audit"): new subjects only, appended; the subjects above are unchanged
        // except for the additional enumeration observers iter_all()/iter_prefix().
        const AUDIT: &str = "coverage audit";
        let dat_new: fn() -> Result<Box<dyn TrieLike>, String> = || Ok(Box::new(DoubleArrayTrie::new()) as Box<dyn TrieLike>);
        let dat_shrink: fn() -> Result<Box<dyn TrieLike>, String> = || Ok(Box::new(DatShrink(DoubleArrayTrie::new())) as Box<dyn TrieLike>);
        let with = |mut s: TrieSpec, f: &dyn Fn(&mut TrieSpec)| -> Seq<TrieSpec> {
            s.note = AUDIT;
            f(&mut s);
            Seq(s)
        };
        const SETENUM: Views = Views { contains: true, len: true, enumerate: true, fsa: false };

        // ---- (1) byte values: leading 0x00 / 0xff / 0x80, prefixes through 0x00
        reg.add(with(spec("ZiporaTrie[default]/bytes", zt(cfg_default), k_bytes(), true, ALL, 3, 4), &|s| s.extra_probes = k_bytes_probes()));
        reg.add(with(spec("ZiporaTrie[sparse_optimized]/bytes", zt(ZiporaTrieConfig::sparse_optimized), k_bytes(), false, ALL, 4, 5), &|s| s.extra_probes = k_bytes_probes()));
        reg.add(with(spec("ZiporaTrie[concurrent_high_performance]/bytes", zt(cfg_chp), k_bytes(), false, ALL, 4, 5), &|s| s.extra_probes = k_bytes_probes()));
        reg.add(with(spec("DoubleArrayTrie/new/bytes", Box::new(dat_new), k_bytes(), false, ALL, 4, 5), &|s| s.extra_probes = k_bytes_probes()));
        reg.add(with(spec("ZiporaTrie[space_optimized]/set+enum/bytes", zt(ZiporaTrieConfig::space_optimized), k_bytes(), false, SETENUM, 4, 5), &|s| s.extra_probes = k_bytes_probes()));

        // ---- (2) double array: relocation of the ROOT state
        reg.add(with(spec("ZiporaTrie[concurrent_high_performance]/rootmove", zt(cfg_chp), k_rootmove(), false, ALL, 4, 5), &|s| s.extra_probes = vec![b"xa".to_vec(), b"z".to_vec()]));
        reg.add(with(spec("DoubleArrayTrie/new/rootmove", Box::new(dat_new), k_rootmove(), false, ALL, 4, 5), &|s| s.extra_probes = vec![b"xa".to_vec(), b"z".to_vec()]));

        // ---- (3) LOUDS record store: keys()/keys_with_prefix on more than one key (the full-oracle LOUDS subject stops at depth 1
        //          on the `accepts` stub), the 255-byte length limit, keys that look like records
        reg.add(with(spec("ZiporaTrie[space_optimized]/set+enum", zt(ZiporaTrieConfig::space_optimized), k10(), false, SETENUM, 4, 5), &|_| {}));
        reg.add(with(spec("ZiporaTrie[space_optimized]/set+enum/len255", zt(ZiporaTrieConfig::space_optimized), k_len255(), false, SETENUM, 3, 4), &|s| {
            s.extra_probes = vec![vec![b'a'; 253], vec![b'a'; 257]]
        }));
        reg.add(with(spec("ZiporaTrie[space_optimized]/set+enum/recordlike", zt(ZiporaTrieConfig::space_optimized), k_recordlike(), false, SETENUM, 4, 5), &|s| {
            s.extra_probes = vec![b"\x01".to_vec(), b"\x02a".to_vec()]
        }));
        // long keys on the other storages as well (Patricia: one 2 KiB node per byte)
        reg.add(with(spec("ZiporaTrie[concurrent_high_performance]/len255", zt(cfg_chp), k_len255(), false, ALL, 2, 3), &|s| s.extra_probes = vec![vec![b'a'; 253], vec![b'a'; 257]]));
        reg.add(with(spec("ZiporaTrie[sparse_optimized]/len255", zt(ZiporaTrieConfig::sparse_optimized), k_len255(), false, ALL, 2, 3), &|s| s.extra_probes = vec![vec![b'a'; 253], vec![b'a'; 257]]));

        // ---- (4) start states other than the empty trie: every key of the alphabet already present
        reg.add(with(spec("ZiporaTrie[default]/prefilled-K10", zt(cfg_default), k10(), true, ALL, 3, 4), &|s| s.prefix = ins_all(&k10())));
        reg.add(with(spec("ZiporaTrie[cache_optimized]/prefilled-K10", zt(ZiporaTrieConfig::cache_optimized), k10(), true, ALL, 2, 3), &|s| s.prefix = ins_all(&k10())));
        reg.add(with(spec("ZiporaTrie[concurrent_high_performance]/prefilled-collide", zt(cfg_chp), k10(), false, ALL, 3, 4), &|s| {
            s.prefix = ins_all(&k_collide());
            s.extra_probes = k_collide();
        }));
        reg.add(with(spec("ZiporaTrie[sparse_optimized]/prefilled-collide", zt(ZiporaTrieConfig::sparse_optimized), k10(), false, ALL, 3, 4), &|s| {
            s.prefix = ins_all(&k_collide());
            s.extra_probes = k_collide();
        }));

        // ---- (5) set-preserving operations of the public API between the inserts/removes: Clone, shrink_to_fit
        reg.add(with(spec("ZiporaTrie[default]/k4+clone", zt(cfg_default), k4(), true, ALL, 4, 5), &|s| s.with_clone = true));
        reg.add(with(spec("ZiporaTrie[sparse_optimized]/k4+clone", zt(ZiporaTrieConfig::sparse_optimized), k4(), false, ALL, 4, 6), &|s| s.with_clone = true));
        reg.add(with(spec("ZiporaTrie[space_optimized]/set+enum/k4+clone", zt(ZiporaTrieConfig::space_optimized), k4(), false, SETENUM, 4, 6), &|s| s.with_clone = true));
        reg.add(with(spec("ZiporaTrie[concurrent_high_performance]/collide+clone+shrink", zt(cfg_chp), k_collide(), false, ALL, 4, 5), &|s| {
            s.with_clone = true;
            s.with_shrink = true;
        }));
        reg.add(with(spec("ZiporaTrie[concurrent_high_performance]/K10+shrink", zt(cfg_chp), k10(), false, ALL, 3, 4), &|s| s.with_shrink = true));
        reg.add(with(spec("DoubleArrayTrie/new/collide+shrink", Box::new(dat_shrink), k_collide(), false, ALL, 4, 5), &|s| s.with_shrink = true));

        // ---- (6) NestedTrieDawg (src/fsa/dawg.rs, an anchor file of C05): implements Trie + FiniteStateAutomaton
        let dawg_fresh: fn() -> Result<Box<dyn TrieLike>, String> = || NestedTrieDawg::new().map(|d| Box::new(Dawg(d)) as Box<dyn TrieLike>).map_err(|e| e.to_string());
        let dawg_built_empty: fn() -> Result<Box<dyn TrieLike>, String> = || {
            let mut d = NestedTrieDawg::new().map_err(|e| e.to_string())?;
            d.build_from_keys(Vec::<Vec<u8>>::new()).map_err(|e| e.to_string())?;
            Ok(Box::new(Dawg(d)) as Box<dyn TrieLike>)
        };
        let dawg_built: fn() -> Result<Box<dyn TrieLike>, String> = || {
            let mut d = NestedTrieDawg::new().map_err(|e| e.to_string())?;
            d.build_from_keys(vec![b"ab".to_vec(), b"cb".to_vec(), b"a".to_vec()]).map_err(|e| e.to_string())?;
            Ok(Box::new(Dawg(d)) as Box<dyn TrieLike>)
        };
        reg.add(with(spec("NestedTrieDawg/new/via-Trie-trait", Box::new(dawg_fresh), k3(), false, ALL, 3, 4), &|_| {}));
        reg.add(with(spec("NestedTrieDawg/build_from_keys[]/via-Trie-trait", Box::new(dawg_built_empty), k3(), false, ALL, 3, 4), &|_| {}));
        reg.add(with(
            spec("NestedTrieDawg/build_from_keys[ab,cb,a]/via-Trie-trait", Box::new(dawg_built), vec![b"abd".to_vec(), b"c".to_vec(), b"cb".to_vec()], false, ALL, 3, 4),
            &|s| {
                s.built_with = vec![b"ab".to_vec(), b"cb".to_vec(), b"a".to_vec()];
                s.extra_probes = vec![b"cbd".to_vec(), b"b".to_vec(), b"".to_vec()];
            },
        ));

        // ---- (7) ParallelLoudsTrie bulk entry points
        reg.add(with(spec("ParallelLoudsTrie/bulk_insert+parallel_contains", Box::new(|| Ok(Box::new(ParBulk(ParallelLoudsTrie::new())) as Box<dyn TrieLike>)), k3(), false, SET, 3, 4), &|_| {}));
    });
}
