//! C01 — entropy codecs are lossless for every input and variant (engine E2).
//!
//! Oracle (the property's own sentence): IF `encode(x)` returns `Ok(y)` THEN decoding `y` with the matching
//! decoder and `|x|` returns exactly `x`.  `Err`/panic from the *encoder* (or from building the model) means
//! "encoding did not succeed" and is a skip; `Err` / panic / wrong length / wrong bytes from the *decoder* is
//! a violation of clause `roundtrip`.
//!
//! One `EnumSpec` per codec family; the variant (stream count, order, preset, tier ...) and the training data
//! are part of the case.  Input space: S (all strings over {00,61,FF} up to a length) ∪ G (shape × n × k).

use serde::{Deserialize, Serialize};
use zverif::enumr::{self, shaped, Enum, EnumSpec, Shape};
use zverif::util::{all_strings, brief, catch, hex, unhex};
use zverif::{Outcome, Tier};

use zipora::entropy::dictionary::{DictionaryBuilder, DictionaryCompressor, OptimizedDictionaryCompressor};
use zipora::entropy::fse::{
    fse_compress, fse_compress_with_config, fse_decompress, fse_decompress_with_config, fse_unzip, fse_zip, FseConfig, FseDecoder, FseEncoder,
};
use zipora::entropy::huffman::{ContextualHuffmanDecoder, ContextualHuffmanEncoder, HuffmanDecoder, HuffmanEncoder, HuffmanOrder, HuffmanTree};
use zipora::entropy::parallel::{
    AdaptiveParallelEncoder, ParallelConfig, ParallelHuffmanDecoder, ParallelHuffmanEncoder, ParallelX2Variant, ParallelX4Variant,
    ParallelX8Variant,
};
use zipora::entropy::rans::{AdaptiveRans64Encoder, ParallelX1, ParallelX2, ParallelX4, ParallelX8, Rans64Decoder, Rans64Encoder};
use zipora::entropy::simd_huffman::{HuffmanSimdTier, SimdHuffmanConfig, SimdHuffmanEncoder};

// =================================================================================================
// input space (shared verbatim with c02.rs)

pub mod space {
    use super::*;

    pub const ENGLISH: &[u8] = b"It was the best of times, it was the worst of times, it was the age of wisdom, it was the age of \
foolishness, it was the epoch of belief, it was the epoch of incredulity, it was the season of Light, it was the season of Darkness, \
it was the spring of hope, it was the winter of despair, we had everything before us, we had nothing before us, we were all going \
direct to Heaven, we were all going direct the other way - in short, the period was so far like the present period, that some of its \
noisiest authorities insisted on its being received, for good or for evil, in the superlative degree of comparison only. 0123456789";

    /// Shapes of the threshold grid: the shared `enumr::Shape`s plus the ones only the codecs need.
    #[derive(Clone, Copy, Debug, PartialEq, Eq, Hash, Serialize, Deserialize)]
    pub enum Sh {
        Cyclic,
        Dominant,
        Geometric,
        Fibonacci,
        Runs,
        Periodic,
        Zero,
        Ones,
        Noise,
        /// order-1 context skew: in context 0x41 the successor frequencies are 1,2,4,.. (as far as n allows)
        /// after ~240 other successors that occur once: merged-tree code lengths 8+d
        CtxSkew,
        /// exact period-k repeat of the bytes 0x30.. (LZ back-references at distance k)
        Period,
        /// the fixed English-like text repeated / cut to n
        English,
        /// 0,1,..,255,0,1.. : every byte value equally often (incompressible for order-0 models)
        AllBytes,
        /// (coverage audit) one 64-byte block, non-matching filler, the same block again exactly k bytes after its
        /// first occurrence (n is ignored: the length is k + 64): the only LZ match has distance k
        /// (k = 32767/32768/32769 straddle the 32 KiB window of both LZ coders)
        FarRepeat,
        /// (coverage audit, used by C02) the first n bytes of `big_corpus()` (128 KiB of distinct 16-byte records)
        BigHead,
        /// (coverage audit, used by C02) n bytes of `big_corpus()` starting at offset 70000, i.e. beyond the first 64 KiB
        BigTail,
    }

    /// 8192 distinct 16-byte records "<hhhhh|dddddddd>": 128 KiB in which every 16-byte window occurs once, so a
    /// dictionary built from it has exactly one position for each record (positions >= 65536 for records >= 4096)
    pub fn big_corpus() -> Vec<u8> {
        let mut v = Vec::with_capacity(8192 * 16);
        for i in 0..8192u64 {
            v.extend_from_slice(format!("<{:05x}|{:08}>", i, (i * 2654435761) % 100_000_000).as_bytes());
        }
        v
    }
    pub const BIG_TAIL_OFFSET: usize = 70000;

    pub fn expand(shape: Sh, n: usize, k: usize) -> Vec<u8> {
        let e = |s: Shape| shaped(s, n, k);
        match shape {
            Sh::Cyclic => e(Shape::Cyclic),
            Sh::Dominant => e(Shape::Dominant),
            Sh::Geometric => e(Shape::Geometric),
            Sh::Fibonacci => e(Shape::Fibonacci),
            Sh::Runs => e(Shape::Runs),
            Sh::Periodic => e(Shape::Periodic),
            Sh::Zero => e(Shape::Zero),
            Sh::Ones => e(Shape::Ones),
            Sh::Noise => e(Shape::Noise),
            Sh::CtxSkew => {
                let mut v = Vec::with_capacity(n + 2);
                // 240 singleton successors of context 'A'
                let mut s: u32 = 0;
                let mut singles = 0;
                while v.len() + 2 <= n && singles < 240 {
                    if s as u8 != 0x41 {
                        v.push(0x41);
                        v.push(s as u8);
                        singles += 1;
                    }
                    s += 1;
                }
                // then successors 0xF0.. with counts 1,2,4,8..
                let mut d = 0u32;
                'o: loop {
                    for _ in 0..(1u64 << d.min(40)) {
                        if v.len() + 2 > n {
                            break 'o;
                        }
                        v.push(0x41);
                        v.push(0xF0u8.wrapping_add(d as u8) | 0xF0);
                    }
                    d += 1;
                    if d > 15 {
                        d = 15;
                    }
                }
                while v.len() < n {
                    v.push(0x41);
                }
                v
            }
            Sh::Period => {
                let p = k.clamp(1, 256);
                (0..n).map(|i| 0x30u8.wrapping_add((i % p) as u8)).collect()
            }
            Sh::English => (0..n).map(|i| ENGLISH[i % ENGLISH.len()]).collect(),
            Sh::AllBytes => (0..n).map(|i| (i % 256) as u8).collect(),
            Sh::FarRepeat => {
                // block: xorshift bytes < 0x80; filler: xorshift bytes >= 0x80 (no byte of the filler occurs in the block)
                let k = k.max(64);
                let mut x: u64 = 0xD1B5_4A32_D192_ED03;
                let mut next = move || {
                    x ^= x << 13;
                    x ^= x >> 7;
                    x ^= x << 17;
                    (x >> 24) as u8
                };
                let block: Vec<u8> = (0..64).map(|_| next() & 0x7F).collect();
                let mut v = Vec::with_capacity(k + 64);
                v.extend_from_slice(&block);
                while v.len() < k {
                    v.push(next() | 0x80);
                }
                v.extend_from_slice(&block);
                v
            }
            Sh::BigHead => {
                let c = big_corpus();
                c[..n.min(c.len())].to_vec()
            }
            Sh::BigTail => {
                let c = big_corpus();
                let a = BIG_TAIL_OFFSET.min(c.len());
                c[a..(a + n).min(c.len())].to_vec()
            }
        }
    }

    #[derive(Clone, Debug, PartialEq, Eq, Hash, Serialize, Deserialize)]
    pub enum Input {
        /// small scope: the bytes themselves (hex)
        Lit(String),
        /// threshold grid point, expanded by `expand`
        Grid { shape: Sh, n: usize, k: usize },
    }

    impl Input {
        pub fn bytes(&self) -> Vec<u8> {
            match self {
                Input::Lit(h) => unhex(h).unwrap_or_default(),
                Input::Grid { shape, n, k } => expand(*shape, *n, *k),
            }
        }
    }

    #[derive(Clone, Copy, Debug, PartialEq, Eq, Hash, Serialize, Deserialize)]
    pub enum Train {
        /// the payload itself
        Same,
        /// every byte value once (x4)
        Uniform,
        /// the payload reversed
        Reversed,
        /// the payload without its rarest symbol
        MinusRarest,
        /// fixed English-like text
        English,
    }

    pub const ALL_TRAIN: &[Train] = &[Train::Same, Train::Uniform, Train::Reversed, Train::MinusRarest, Train::English];

    pub fn training(t: Train, x: &[u8]) -> Vec<u8> {
        match t {
            Train::Same => x.to_vec(),
            Train::Uniform => (0..1024).map(|i| (i % 256) as u8).collect(),
            Train::Reversed => x.iter().rev().copied().collect(),
            Train::MinusRarest => {
                let mut f = [0usize; 256];
                for &b in x {
                    f[b as usize] += 1;
                }
                // rarest present symbol, ties: the largest byte value
                let mut best: Option<usize> = None;
                for s in 0..256 {
                    if f[s] > 0 && best.map_or(true, |b| f[s] <= f[b]) {
                        best = Some(s);
                    }
                }
                match best {
                    Some(r) => x.iter().copied().filter(|&b| b as usize != r).collect(),
                    None => Vec::new(),
                }
            }
            Train::English => ENGLISH.to_vec(),
        }
    }

    pub const SMALL_ALPHABET: &[u8] = &[0x00, 0x61, 0xFF];

    /// Code-length thresholds of the Huffman family: the tree built by this library is a chain of depth k-1
    /// for k distinct symbols, so k = 13/14, 17/18, 33/34, 65/66 straddle 12, 16, 32 and 64-bit codes.
    pub const K_FULL: &[usize] = &[1, 2, 3, 4, 13, 14, 17, 18, 33, 34, 65, 66, 255, 256];
    pub const K_SMALL: &[usize] = &[1, 2, 3, 17, 18, 256];

    pub const N_QUICK: &[usize] = &[
        0, 1, 2, 3, 4, 5, 7, 8, 9, 15, 16, 17, 31, 32, 33, 63, 64, 65, 72, 73, 74, 99, 100, 101, 127, 128, 129, 255, 256, 257, 511, 512, 513, 1023,
        1024, 1025, 4095, 4096, 4097,
    ];
    pub const N_THOROUGH_EXTRA: &[usize] = &[5328, 5329, 5330, 8191, 8192, 8193];
    pub const N_HUGE: &[usize] = &[65535, 65536, 65537];
    pub const N_SMALL: &[usize] = &[0, 1, 2, 3, 4, 5, 7, 8, 9, 16, 17, 64, 65, 99, 100, 101, 256, 257, 1024, 1025, 4096, 4097];

    pub const SHAPES_ALL: &[Sh] = &[
        Sh::Cyclic,
        Sh::Dominant,
        Sh::Geometric,
        Sh::Fibonacci,
        Sh::Runs,
        Sh::Periodic,
        Sh::Zero,
        Sh::Ones,
        Sh::Noise,
        Sh::CtxSkew,
        Sh::Period,
        Sh::English,
        Sh::AllBytes,
    ];

    /// Which part of the space a subject enumerates (its stated bound).
    #[derive(Clone)]
    pub struct SpaceDef {
        pub s_len: usize,
        pub ns: Vec<usize>,
        pub ks: Vec<usize>,
        pub shapes: Vec<Sh>,
    }

    impl SpaceDef {
        pub fn describe(&self) -> String {
            format!(
                "S = all strings over {{00,61,FF}} of length <= {} ({} strings); G = shapes {:?} x n in {:?} x k in {:?} (deduplicated by content){}",
                self.s_len,
                (0..=self.s_len).map(|l| 3usize.pow(l as u32)).sum::<usize>(),
                self.shapes,
                self.ns,
                self.ks,
                if self.shapes.contains(&Sh::FarRepeat) { "; FarRepeat: match distance k in [32767, 32768, 32769], length k+64" } else { "" }
            )
        }

        /// Enumerate S then G, simplest first; grid points that expand to bytes already seen are dropped.
        pub fn inputs(&self, f: &mut dyn FnMut(Input) -> bool) -> bool {
            let mut seen = std::collections::HashSet::new();
            let ok = all_strings(SMALL_ALPHABET, self.s_len, &mut |s| {
                seen.insert(zverif::util::h64(s));
                f(Input::Lit(hex(s)))
            });
            if !ok {
                return false;
            }
            for &n in &self.ns {
                for &shape in &self.shapes {
                    let ks: &[usize] = match shape {
                        Sh::Zero | Sh::Ones | Sh::CtxSkew | Sh::English | Sh::AllBytes | Sh::BigHead | Sh::BigTail => &[1],
                        Sh::Period => &[1, 2, 3, 7, 8, 9, 10, 257, 258],
                        // distance of the only match; n is ignored, so the shape is enumerated for one n only
                        Sh::FarRepeat => {
                            if n != self.ns[0] {
                                continue;
                            }
                            &[32767, 32768, 32769]
                        }
                        _ => &self.ks,
                    };
                    for &k in ks {
                        let b = expand(shape, n, k);
                        if !seen.insert(zverif::util::h64(&b[..])) {
                            continue;
                        }
                        if !f(Input::Grid { shape, n, k }) {
                            return false;
                        }
                    }
                }
            }
            true
        }
    }

    pub fn def(s_len: usize, ns: &[&[usize]], ks: &[usize], shapes: &[Sh]) -> SpaceDef {
        let mut n: Vec<usize> = ns.iter().flat_map(|l| l.iter().copied()).collect();
        n.sort_unstable();
        n.dedup();
        SpaceDef { s_len, ns: n, ks: ks.to_vec(), shapes: shapes.to_vec() }
    }

    // ---- observable facts used in outcome classes

    pub fn distinct(x: &[u8]) -> usize {
        let mut f = [false; 256];
        for &b in x {
            f[b as usize] = true;
        }
        f.iter().filter(|&&b| b).count()
    }

    pub fn len_class(n: usize) -> &'static str {
        match n {
            0 => "n=0",
            1 => "n=1",
            2..=3 => "n<4",
            4..=99 => "n<100",
            100..=4095 => "n<4096",
            _ => "n>=4096",
        }
    }

    pub fn alpha_class(x: &[u8]) -> &'static str {
        match distinct(x) {
            0 => "k=0",
            1 => "k=1",
            2 => "k=2",
            3..=16 => "k<=16",
            17..=64 => "k<=64",
            65..=255 => "k<=255",
            _ => "k=256",
        }
    }

    /// does the training data contain every symbol of the payload?
    pub fn covers(train: &[u8], x: &[u8]) -> bool {
        let mut f = [false; 256];
        for &b in train {
            f[b as usize] = true;
        }
        x.iter().all(|&b| f[b as usize])
    }
}

use space::*;

// =================================================================================================
// the common round-trip judge

#[derive(Clone, Debug, Hash, Serialize, Deserialize)]
pub struct Case {
    pub variant: String,
    pub input: Input,
    pub train: Train,
}

type R = Result<Vec<u8>, String>;

fn es<E: std::fmt::Display>(e: E) -> String {
    e.to_string()
}

/// `encode` builds the model and encodes; `decode` gets the encoded bytes.  `feature` = coarse facts about the
/// case that, together with variant and outcome, make up the failure class.
fn judge<M>(
    variant: &str,
    x: &[u8],
    feature: &str,
    encode: impl FnOnce() -> Result<(Vec<u8>, M), String>,
    decode: impl FnOnce(&[u8], M) -> R,
) -> Outcome {
    let (y, model) = match catch(encode) {
        Err(p) => return Outcome::skip(&format!("encode_panic@{}", p.class)),
        Ok(Err(_)) => return Outcome::skip("encode_err"),
        Ok(Ok(y)) => y,
    };
    let cls = |what: &str| {
        let mut parts: Vec<&str> = Vec::new();
        for p in [variant, what, feature] {
            if !p.is_empty() {
                parts.push(p);
            }
        }
        parts.join("|")
    };
    match catch(|| decode(&y, model)) {
        Err(p) => enumr::fail(
            "roundtrip",
            cls(&format!("decode_panic@{}", p.class)),
            format!("x={} |y|={} decoder panicked: {}", brief(x), y.len(), p.detail),
        ),
        Ok(Err(e)) => enumr::fail(
            "roundtrip",
            cls(&format!("decode_err({})", norm_msg(&e))),
            format!("x={} |y|={} decoder returned Err({e})", brief(x), y.len()),
        ),
        Ok(Ok(z)) => {
            if z.len() != x.len() {
                enumr::fail("roundtrip", cls("wrong_output"), format!("wrong length: x={} decoded {} bytes: {}", brief(x), z.len(), brief(&z)))
            } else if z != x {
                let at = z.iter().zip(x).position(|(a, b)| a != b).unwrap_or(0);
                enumr::fail(
                    "roundtrip",
                    cls("wrong_output"),
                    format!("wrong bytes: x={} decoded={} first difference at {at}: {:02x} != {:02x}", brief(x), brief(&z), z[at], x[at]),
                )
            } else if x.is_empty() {
                Outcome::trivial("ok|empty")
            } else if y.len() < x.len() {
                Outcome::pass("ok|smaller")
            } else {
                Outcome::pass("ok|not_smaller")
            }
        }
    }
}

/// Error message with every number replaced by '#' and cut to 48 chars: a stable name for "which check refused".
fn norm_msg(m: &str) -> String {
    let mut out = String::new();
    let mut in_num = false;
    for ch in m.chars() {
        if ch.is_ascii_digit() {
            if !in_num {
                out.push('#');
            }
            in_num = true;
        } else {
            in_num = false;
            out.push(ch);
        }
    }
    out.chars().take(48).collect()
}

fn freqs(t: &[u8]) -> [u32; 256] {
    let mut f = [0u32; 256];
    for &b in t {
        f[b as usize] += 1;
    }
    f
}

fn generic_feature(x: &[u8], t: &[u8]) -> String {
    format!("{}|{}|{}", len_class(x.len()), alpha_class(x), if covers(t, x) { "train_covers" } else { "train_misses_symbol" })
}

/// A codec family: name, variants, trainings, the space, and the round trip of one case.
pub struct Family {
    pub name: &'static str,
    pub variants: Vec<String>,
    pub trains: Vec<Train>,
    pub space: SpaceDef,
    pub run: fn(&str, &[u8], &[u8], Train) -> Outcome,
}

impl EnumSpec for Family {
    type Case = Case;
    fn name(&self) -> String {
        self.name.to_string()
    }
    fn space(&self, _tier: Tier) -> String {
        format!("variants {:?} x training {:?} x inputs: {}", self.variants, self.trains, self.space.describe())
    }
    fn cases(&self, _tier: Tier, f: &mut dyn FnMut(Case) -> bool) {
        self.space.inputs(&mut |input| {
            for v in &self.variants {
                for &t in &self.trains {
                    // training derived from the payload is the payload itself when there is nothing to derive
                    if !f(Case { variant: v.clone(), input: input.clone(), train: t }) {
                        return false;
                    }
                }
            }
            true
        });
    }
    fn run(&self, c: &Case) -> Outcome {
        let x = c.input.bytes();
        let t = training(c.train, &x);
        (self.run)(&c.variant, &x, &t, c.train)
    }
}

// =================================================================================================
// the families

fn run_huffman(v: &str, x: &[u8], t: &[u8], _tr: Train) -> Outcome {
    let feat = generic_feature(x, t);
    judge(
        v,
        x,
        &feat,
        || {
            let enc = if v == "from_frequencies" { HuffmanEncoder::from_frequencies(&freqs(t)) } else { HuffmanEncoder::new(t) }.map_err(es)?;
            let y = enc.encode(x).map_err(es)?;
            Ok((y, enc.tree().clone()))
        },
        |y, tree| {
            // "new+serialize": the decoder only gets the stored model (HuffmanTree::serialize -> deserialize)
            let tree = if v == "new+serialize" { HuffmanTree::deserialize(&tree.serialize()).map_err(|e| format!("deserialize: {e}"))? } else { tree };
            HuffmanDecoder::new(tree).decode(y, x.len()).map_err(es)
        },
    )
}

fn order_of(v: &str) -> HuffmanOrder {
    match v {
        "order0" => HuffmanOrder::Order0,
        "order1" => HuffmanOrder::Order1,
        _ => HuffmanOrder::Order2,
    }
}

fn run_contextual(v: &str, x: &[u8], t: &[u8], _tr: Train) -> Outcome {
    let feat = generic_feature(x, t);
    let (order, via_ser) = match v.strip_suffix("+serialize") {
        Some(o) => (order_of(o), true),
        None => (order_of(v), false),
    };
    judge(
        v,
        x,
        &feat,
        || {
            let enc = ContextualHuffmanEncoder::new(t, order).map_err(es)?;
            let y = enc.encode(x).map_err(es)?;
            Ok((y, enc))
        },
        |y, enc| {
            let enc = if via_ser { ContextualHuffmanEncoder::deserialize(&enc.serialize()).map_err(|e| format!("deserialize: {e}"))? } else { enc };
            ContextualHuffmanDecoder::new(enc).decode(y, x.len()).map_err(es)
        },
    )
}

fn run_interleaved(v: &str, x: &[u8], t: &[u8], _tr: Train) -> Outcome {
    let feat = generic_feature(x, t);
    // "xN+serialize": decode_xN runs on the model rebuilt from ContextualHuffmanEncoder::serialize/deserialize
    let full = v;
    let (v, via_ser) = match v.strip_suffix("+serialize") {
        Some(b) => (b, true),
        None => (v, false),
    };
    judge(
        full,
        x,
        &feat,
        || {
            let enc = ContextualHuffmanEncoder::new(t, HuffmanOrder::Order1).map_err(es)?;
            let y = match v {
                "x1" => enc.encode_x1(x),
                "x2" => enc.encode_x2(x),
                "x4" => enc.encode_x4(x),
                _ => enc.encode_x8(x),
            }
            .map_err(es)?;
            Ok((y, enc))
        },
        |y, enc| {
            let enc = if via_ser { ContextualHuffmanEncoder::deserialize(&enc.serialize()).map_err(|e| format!("deserialize: {e}"))? } else { enc };
            match v {
                "x1" => enc.decode_x1(y, x.len()),
                "x2" => enc.decode_x2(y, x.len()),
                "x4" => enc.decode_x4(y, x.len()),
                _ => enc.decode_x8(y, x.len()),
            }
            .map_err(es)
        },
    )
}

fn rans_rt<P: zipora::entropy::rans::ParallelVariant>(v: &str, x: &[u8], t: &[u8]) -> Outcome {
    let feat = generic_feature(x, t);
    judge(
        v,
        x,
        &feat,
        || {
            let enc = Rans64Encoder::<P>::new(&freqs(t)).map_err(es)?;
            let y = enc.encode(x).map_err(es)?;
            Ok((y, enc))
        },
        |y, enc| Rans64Decoder::<P>::new(&enc).decode(y, x.len()).map_err(es),
    )
}

fn run_rans(v: &str, x: &[u8], t: &[u8], _tr: Train) -> Outcome {
    match v {
        "x1" => rans_rt::<ParallelX1>(v, x, t),
        "x2" => rans_rt::<ParallelX2>(v, x, t),
        "x4" => rans_rt::<ParallelX4>(v, x, t),
        _ => rans_rt::<ParallelX8>(v, x, t),
    }
}

fn rans_decode_as(name: &str, f: &[u32; 256], y: &[u8], n: usize) -> R {
    fn go<P: zipora::entropy::rans::ParallelVariant>(f: &[u32; 256], y: &[u8], n: usize) -> R {
        let enc = Rans64Encoder::<P>::new(f).map_err(|e| format!("model: {e}"))?;
        Rans64Decoder::<P>::new(&enc).decode(y, n).map_err(es)
    }
    match name {
        "x1" => go::<ParallelX1>(f, y, n),
        "x2" => go::<ParallelX2>(f, y, n),
        "x4" => go::<ParallelX4>(f, y, n),
        _ => go::<ParallelX8>(f, y, n),
    }
}

/// `AdaptiveRans64Encoder::encode_adaptive` computes the payload's own frequencies and picks the stream count from
/// the length (`select_variant`, public); the matching decoder is the `Rans64Decoder` of that variant and model.
fn run_adaptive_rans(v: &str, x: &[u8], _t: &[u8], _tr: Train) -> Outcome {
    let a = AdaptiveRans64Encoder::new();
    let chosen = a.select_variant(x.len());
    let feat = format!("{}|{}|chosen={}", len_class(x.len()), alpha_class(x), chosen);
    judge(v, x, &feat, || Ok((a.encode_adaptive(x).map_err(es)?, ())), |y, _| rans_decode_as(chosen, &freqs(x), y, x.len()))
}

fn fse_preset(name: &str) -> FseConfig {
    match name {
        "default" => FseConfig::default(),
        "fast_compression" => FseConfig::fast_compression(),
        "high_compression" => FseConfig::high_compression(),
        "realtime" => FseConfig::realtime(),
        "balanced" => FseConfig::balanced(),
        // not presets (public fields): the high_compression preset with a block size small enough for the grid to
        // reach the parallel framing (compress_parallel / decompress_parallel) ...
        "high_compression/block=1024" => FseConfig { block_size: 1024, ..FseConfig::high_compression() },
        // ... and the default preset with `adaptive` off, so that a re-used encoder keeps the table of its first call
        "default/adaptive=false" => FseConfig { adaptive: false, ..FseConfig::default() },
        // (coverage audit) block size 128: the grid straddles `len > 2 * block_size` (256/257), containers mix
        // compressed (>= 100 byte) and stored (< 100 byte) blocks, and 8192/8193 straddle the 64-block limit
        "high_compression/block=128" => FseConfig { block_size: 128, ..FseConfig::high_compression() },
        // (coverage audit) the scalar frequency counter for inputs >= 64 bytes (the AVX2 counter runs otherwise)
        "default/avx2=off" => {
            let mut c = FseConfig::default();
            c.hardware.avx2 = false;
            c
        }
        other => panic!("unknown preset {other}"),
    }
}

/// Observable facts (public API: `FseTable::new(..).enc_symbols`) about the table the encoder used for `x`, given
/// the frequencies `model` it was built from.
fn fse_fact(model: &[u32; 256], cfg: &FseConfig, x: &[u8]) -> &'static str {
    if x.len() < 100 {
        return "n<100(stored)";
    }
    match catch(|| zipora::entropy::fse::FseTable::new(model, cfg)) {
        Ok(Ok(t)) => {
            let mut absent = false;
            let mut slotless = false;
            for &b in x {
                if t.enc_symbols[b as usize].freq == 0 {
                    if model[b as usize] == 0 {
                        absent = true;
                    } else {
                        slotless = true;
                    }
                }
            }
            if slotless {
                "payload_symbol_normalised_to_0_slots"
            } else if absent {
                "payload_symbol_absent_from_model"
            } else {
                "every_payload_symbol_has_a_slot"
            }
        }
        _ => "table_err",
    }
}

/// Failure classes of the FSE family do not contain the preset name (one normaliser defect shows under every
/// preset) but the normaliser in use and `fse_fact`; a decoder `Err` is classified by its message alone.
fn fse_class(o: Outcome, cfg: &FseConfig, fact: &str, many_blocks: bool) -> Outcome {
    match o {
        Outcome::Fail(mut f) => {
            if many_blocks {
                // 64 = largest block count `FseDecoder::decompress` recognises as a parallel container
                f.class = "parallel_container_with_more_than_64_blocks".to_string();
            } else if !f.class.starts_with("decode_err(") {
                f.class = format!("{}|normaliser={}|{}", f.class, if cfg.entropy_optimization { "entropy" } else { "simple" }, fact);
            }
            Outcome::Fail(f)
        }
        o => o,
    }
}

fn add_freqs(a: &[u32; 256], b: &[u32; 256]) -> [u32; 256] {
    let mut r = *a;
    for i in 0..256 {
        r[i] += b[i];
    }
    r
}

fn run_fse(v: &str, x: &[u8], t: &[u8], _tr: Train) -> Outcome {
    // variants:  fse_compress | fse_zip | encoder[<preset>] | encoder[<preset>]+object | ..+reused | ..+dict
    let dflt = FseConfig::default();
    if v == "fse_compress" {
        let o = judge("", x, "", || Ok((fse_compress(x).map_err(es)?, ())), |y, _| fse_decompress(y).map_err(es));
        return fse_class(o, &dflt, fse_fact(&freqs(x), &dflt, x), false);
    }
    if v == "fse_zip" {
        let o = judge("", x, "", || Ok((fse_zip(x).map_err(es)?, ())), |y, _| fse_unzip(y).map_err(es));
        return fse_class(o, &dflt, fse_fact(&freqs(x), &dflt, x), false);
    }
    let inner = v.trim_start_matches("encoder[");
    let (preset, mode) = match inner.split_once(']') {
        Some((p, m)) => (p, m),
        None => (inner, ""),
    };
    let cfg = fse_preset(preset);
    let (c1, c2) = (cfg.clone(), cfg.clone());
    let blocks = cfg.parallel_blocks.map_or(false, |nb| nb > 1) && x.len() > cfg.block_size * 2 && x.len().div_ceil(cfg.block_size) > 64;
    let (o, model) = match mode {
        "" => (
            judge("", x, "", || Ok((fse_compress_with_config(x, c1).map_err(es)?, ())), |y, _| fse_decompress_with_config(y, c2).map_err(es)),
            freqs(x),
        ),
        "+object" => (
            judge(
                "",
                x,
                "",
                || Ok((FseEncoder::new(c1).map_err(es)?.compress(x).map_err(es)?, ())),
                |y, _| FseDecoder::with_config(c2).map_err(es)?.decompress(y).map_err(es),
            ),
            freqs(x),
        ),
        "+reused" => (
            // one encoder object compresses the training data first, then the payload ("model trained on
            // unrelated data": with `adaptive == false` the table of the first call is kept)
            judge(
                "",
                x,
                "",
                || {
                    let mut e = FseEncoder::new(c1).map_err(es)?;
                    let _ = e.compress(t).map_err(es)?;
                    Ok((e.compress(x).map_err(es)?, ()))
                },
                |y, _| FseDecoder::with_config(c2).map_err(es)?.decompress(y).map_err(es),
            ),
            if cfg.adaptive || t.is_empty() { freqs(x) } else { freqs(t) },
        ),
        "+analyzed" => (
            // the public two-step API: analyze_frequencies(training) builds the table, compress(payload) uses it
            // (kept only when `adaptive == false`)
            judge(
                "",
                x,
                "",
                || {
                    let mut e = FseEncoder::new(c1).map_err(es)?;
                    e.analyze_frequencies(t).map_err(es)?;
                    Ok((e.compress(x).map_err(es)?, ()))
                },
                |y, _| FseDecoder::with_config(c2).map_err(es)?.decompress(y).map_err(es),
            ),
            if cfg.adaptive { freqs(x) } else { freqs(t) },
        ),
        "+reset" => (
            // compress(training); reset(); compress(payload): nothing of the first call may survive the reset
            judge(
                "",
                x,
                "",
                || {
                    let mut e = FseEncoder::new(c1).map_err(es)?;
                    let _ = e.compress(t).map_err(es)?;
                    e.reset();
                    Ok((e.compress(x).map_err(es)?, ()))
                },
                |y, _| {
                    let mut d = FseDecoder::with_config(c2).map_err(es)?;
                    d.reset();
                    d.decompress(y).map_err(es)
                },
            ),
            freqs(x),
        ),
        "+dict" => (
            judge(
                "",
                x,
                "",
                || Ok((FseEncoder::with_dictionary(c1, t.to_vec()).map_err(es)?.compress(x).map_err(es)?, ())),
                |y, _| FseDecoder::with_config(c2).map_err(es)?.decompress(y).map_err(es),
            ),
            add_freqs(&freqs(x), &freqs(t)),
        ),
        other => panic!("unknown fse mode {other}"),
    };
    let fact = fse_fact(&model, &cfg, x);
    fse_class(o, &cfg, fact, blocks)
}

/// variant = "b[<min>,<max>,<entries>,<window>]/c[<min>,<max>]": DictionaryBuilder parameters / compressor parameters
fn parse_nums(s: &str) -> Vec<usize> {
    s.split(',').filter_map(|p| p.trim().parse().ok()).collect()
}

fn lz_feature(x: &[u8], t: &[u8], tr: Train) -> String {
    format!("{}|{}", len_class(x.len()), if tr == Train::Same || t == x { "train=payload" } else { "train=other" })
}

fn run_dictionary(v: &str, x: &[u8], t: &[u8], tr: Train) -> Outcome {
    run_dictionary_inner(v, x, t, tr, false)
}

/// (coverage audit) same round trip; the pass class also says what the token stream contains, so that the evidence
/// shows the match at distance 32767 / 32768 being taken and the one at 32769 being out of the window
fn run_dictionary_window(v: &str, x: &[u8], t: &[u8], tr: Train) -> Outcome {
    run_dictionary_inner(v, x, t, tr, true)
}

/// token stream of both LZ coders: 0,byte | 1,offset:u32le,length:u32le -> (number of matches, largest offset)
fn lz_tokens(y: &[u8]) -> (usize, u32) {
    let (mut i, mut m, mut far) = (0usize, 0usize, 0u32);
    while i < y.len() {
        if y[i] == 1 && i + 9 <= y.len() {
            m += 1;
            far = far.max(u32::from_le_bytes([y[i + 1], y[i + 2], y[i + 3], y[i + 4]]));
            i += 9;
        } else {
            i += 2;
        }
    }
    (m, far)
}

fn run_dictionary_inner(v: &str, x: &[u8], t: &[u8], tr: Train, show_tokens: bool) -> Outcome {
    let feat = lz_feature(x, t, tr);
    let (b, c) = v.split_once("/c[").expect("variant");
    let b = parse_nums(b.trim_start_matches("b[").trim_end_matches(']'));
    let c = parse_nums(c.trim_end_matches(']'));
    let tokens = std::cell::Cell::new((0usize, 0u32));
    let o = judge(
        v,
        x,
        &feat,
        || {
            let dict = DictionaryBuilder::new().min_match_length(b[0]).max_match_length(b[1]).max_entries(b[2]).window_size(b[3]).build(t);
            let dc = DictionaryCompressor::new(dict).min_match_length(c[0]).max_match_length(c[1]);
            let y = dc.compress(x).map_err(es)?;
            tokens.set(lz_tokens(&y));
            Ok((y, dc))
        },
        |y, dc| dc.decompress(y).map_err(es),
    );
    match o {
        Outcome::Pass { nontrivial, class } if show_tokens => {
            let (m, far) = tokens.get();
            Outcome::Pass { nontrivial, class: format!("{class}|matches={m}|max_offset={far}") }
        }
        o => o,
    }
}

/// variant = "new" | "cfg[<min>,<max>,<window>]"
fn run_optimized_dictionary(v: &str, x: &[u8], t: &[u8], tr: Train) -> Outcome {
    // the class names only what matters for this codec: was the model built from the payload or from other data
    let feat = if tr == Train::Same || t == x { "train=payload" } else { "train=other" };
    judge(
        "",
        x,
        feat,
        || {
            let oc = if v == "new" {
                OptimizedDictionaryCompressor::new(t)
            } else {
                let p = parse_nums(v.trim_start_matches("cfg[").trim_end_matches(']'));
                OptimizedDictionaryCompressor::with_config(t, p[0], p[1], p[2])
            }
            .map_err(es)?;
            let y = oc.compress(x).map_err(es)?;
            Ok((y, oc))
        },
        |y, oc| oc.decompress(y).map_err(es),
    )
}

fn par_cfg(name: &str) -> ParallelConfig {
    match name {
        "default" => ParallelConfig::default(),
        "high_throughput" => ParallelConfig::high_throughput(),
        "low_latency" => ParallelConfig::low_latency(),
        // not a preset: min_parallel_size small enough for the grid to take the "parallel" branch of encode
        _ => ParallelConfig { num_streams: 4, block_size: 64, adaptive_blocks: true, min_parallel_size: 256, load_balancing: true },
    }
}

fn par_rt<P: zipora::entropy::parallel::ParallelVariant>(v: &str, cfg: &str, pretrain: bool, x: &[u8], t: &[u8]) -> Outcome {
    let feat = generic_feature(x, t);
    judge(
        v,
        x,
        &feat,
        || {
            let mut e = ParallelHuffmanEncoder::<P>::new(par_cfg(cfg)).map_err(es)?;
            if pretrain {
                // an encoder that was trained on another model before: train replaces the model
                e.train(&[0, 1, 1, 2, 2, 2, 2, 7, 7, 7, 7, 7, 7, 7, 7]).map_err(es)?;
                e.train(t).map_err(es)?;
            }
            Ok((e.encode(x).map_err(es)?, ()))
        },
        |y, _| {
            // the tree the encoder was trained on (auto-trained on the payload when `train` was not called)
            let model = if pretrain { t } else { x };
            let mut d = ParallelHuffmanDecoder::<P>::new(par_cfg(cfg));
            d.set_tree(HuffmanTree::from_data(model).map_err(|e| format!("tree: {e}"))?).map_err(es)?;
            let fresh = d.decode(y, x.len()).map_err(es);
            // a decoder that was set up for (and used with) another model before: set_tree replaces the model
            const OTHER: &[u8] = &[0, 1, 1, 2, 2, 2, 2, 7, 7, 7, 7, 7, 7, 7, 7];
            let mut d2 = ParallelHuffmanDecoder::<P>::new(par_cfg(cfg));
            d2.set_tree(HuffmanTree::from_data(OTHER).map_err(|e| format!("tree: {e}"))?).map_err(es)?;
            let _ = d2.decode(y, x.len());
            d2.set_tree(HuffmanTree::from_data(model).map_err(|e| format!("tree: {e}"))?).map_err(es)?;
            let again = d2.decode(y, x.len()).map_err(es);
            if again != fresh {
                // judged like any other wrong decoder output
                return match again {
                    Ok(bytes) => Ok(bytes),
                    Err(e) => Err(format!("decoder reused after another model (set_tree called twice): {e}")),
                };
            }
            fresh
        },
    )
}

/// variant = "x2/default/trained" ...
fn run_parallel_huffman(v: &str, x: &[u8], t: &[u8], _tr: Train) -> Outcome {
    let p: Vec<&str> = v.split('/').collect();
    let pre = p[2] == "trained";
    match p[0] {
        "x2" => par_rt::<ParallelX2Variant>(v, p[1], pre, x, t),
        "x4" => par_rt::<ParallelX4Variant>(v, p[1], pre, x, t),
        _ => par_rt::<ParallelX8Variant>(v, p[1], pre, x, t),
    }
}

fn par_decode<P: zipora::entropy::parallel::ParallelVariant>(tree: HuffmanTree, y: &[u8], n: usize) -> R {
    let mut d = ParallelHuffmanDecoder::<P>::new(ParallelConfig::default());
    d.set_tree(tree).map_err(es)?;
    d.decode(y, n).map_err(es)
}

/// `encode_adaptive` writes no tag; `select_optimal_encoding` (public, pure) tells which codec it used:
/// huffman → ParallelHuffmanDecoder with the tree of the payload, rans → Rans64Decoder over the uniform model the
/// encoder was constructed with, fse → FseDecoder.
fn run_adaptive_parallel(v: &str, x: &[u8], _t: &[u8], _tr: Train) -> Outcome {
    let mut a = match catch(AdaptiveParallelEncoder::new) {
        Ok(Ok(a)) => a,
        _ => return Outcome::skip("construct_err"),
    };
    if x.is_empty() {
        // select_optimal_encoding divides by the length; let encode decide by itself
        return judge(
            v,
            x,
            "n=0",
            || Ok((a.encode_adaptive(x).map_err(es)?, ())),
            |y, _| if y.is_empty() { Ok(Vec::new()) } else { Err("non-empty encoding of the empty input".into()) },
        );
    }
    let (alg, var) = a.select_optimal_encoding(x);
    let feat = format!("{}|{}|chosen={alg}-{var}", len_class(x.len()), alpha_class(x));
    judge(
        v,
        x,
        &feat,
        || Ok((a.encode_adaptive(x).map_err(es)?, ())),
        |y, _| match alg {
            "huffman" => {
                let tree = HuffmanTree::from_data(x).map_err(|e| format!("tree: {e}"))?;
                match var {
                    "x2" => par_decode::<ParallelX2Variant>(tree, y, x.len()),
                    "x4" => par_decode::<ParallelX4Variant>(tree, y, x.len()),
                    _ => par_decode::<ParallelX8Variant>(tree, y, x.len()),
                }
            }
            "rans" => rans_decode_as(var, &[1u32; 256], y, x.len()),
            _ => FseDecoder::new().decompress(y).map_err(es),
        },
    )
}

/// (coverage audit) the same round trips for the large-input subjects; the pass class names the codec / stream count
/// the selector picked, so that the evidence shows the x4, x8 and FSE branches being taken
fn run_adaptive_parallel_large(v: &str, x: &[u8], t: &[u8], tr: Train) -> Outcome {
    let chosen = if x.is_empty() {
        "none".to_string()
    } else {
        match catch(AdaptiveParallelEncoder::new) {
            Ok(Ok(a)) => {
                let (alg, var) = a.select_optimal_encoding(x);
                format!("{alg}-{var}")
            }
            _ => "construct_err".to_string(),
        }
    };
    match run_adaptive_parallel(v, x, t, tr) {
        Outcome::Pass { nontrivial, class } => Outcome::Pass { nontrivial, class: format!("{class}|chosen={chosen}") },
        o => o,
    }
}

fn run_adaptive_rans_large(v: &str, x: &[u8], t: &[u8], tr: Train) -> Outcome {
    let chosen = AdaptiveRans64Encoder::new().select_variant(x.len());
    match run_adaptive_rans(v, x, t, tr) {
        Outcome::Pass { nontrivial, class } => Outcome::Pass { nontrivial, class: format!("{class}|chosen={chosen}") },
        o => o,
    }
}

fn simd_tier(name: &str) -> HuffmanSimdTier {
    match name {
        "Avx2Bmi2" => HuffmanSimdTier::Avx2Bmi2,
        "Avx2" => HuffmanSimdTier::Avx2,
        "Sse42Bmi2" => HuffmanSimdTier::Sse42Bmi2,
        "Sse42" => HuffmanSimdTier::Sse42,
        "Bmi2" => HuffmanSimdTier::Bmi2,
        _ => HuffmanSimdTier::Scalar,
    }
}

fn run_simd_huffman(v: &str, x: &[u8], t: &[u8], _tr: Train) -> Outcome {
    let feat = generic_feature(x, t);
    let got = std::cell::RefCell::new(String::new());
    let o = judge(
        v,
        x,
        &feat,
        || {
            let enc = match v {
                // (coverage audit) the default constructor, and non-default batch/prefetch settings
                "new()" => SimdHuffmanEncoder::new(t),
                "Avx2/batch=7/noprefetch" => SimdHuffmanEncoder::with_config(
                    t,
                    SimdHuffmanConfig { preferred_tier: HuffmanSimdTier::Avx2, batch_size: 7, enable_prefetching: false, ..SimdHuffmanConfig::default() },
                ),
                "Avx2Bmi2/noprefetch" => SimdHuffmanEncoder::with_config(
                    t,
                    SimdHuffmanConfig { preferred_tier: HuffmanSimdTier::Avx2Bmi2, enable_prefetching: false, ..SimdHuffmanConfig::default() },
                ),
                _ => SimdHuffmanEncoder::with_config(t, SimdHuffmanConfig { preferred_tier: simd_tier(v), ..SimdHuffmanConfig::default() }),
            }
            .map_err(es)?;
            *got.borrow_mut() = format!("{:?}", enc.tier());
            let y = enc.encode(x).map_err(es)?;
            Ok((y, enc.tree().clone()))
        },
        |y, tree| HuffmanDecoder::new(tree).decode(y, x.len()).map_err(es),
    );
    // make the tier that actually ran visible in the pass classes
    match o {
        Outcome::Pass { nontrivial, class } => Outcome::Pass { nontrivial, class: format!("{class}|ran={}", got.borrow()) },
        o => o,
    }
}

fn sv(v: &[&str]) -> Vec<String> {
    v.iter().map(|s| s.to_string()).collect()
}

fn main() {
    zverif::main_with("C01", |reg, tier| {
        let q = tier == Tier::Quick;
        const K_RANS: &[usize] = &[1, 2, 3, 4, 17, 255, 256];
        const K3: &[usize] = &[2, 17, 256];
        const N_ADAPT: &[usize] = &[5328, 5329, 5330]; // 73*73: AdaptiveRans64Encoder::select_variant
        const N_CTX: &[usize] = &[0, 1, 2, 3, 4, 5, 8, 9, 64, 100, 257, 1025, 4097];
        const N_IL: &[usize] = &[0, 1, 2, 3, 4, 5, 7, 8, 9, 17, 100, 1025];
        const N_CTX_T: &[usize] = &[0, 1, 2, 3, 4, 5, 7, 8, 9, 15, 16, 17, 64, 100, 255, 256, 257, 1024, 1025, 4097];
        // 10 = effective minimum match of both LZ coders, 258 = default maximum match
        const N_LZ: &[usize] = &[0, 1, 2, 3, 9, 10, 11, 12, 19, 20, 21, 100, 257, 258, 259, 260, 516, 517, 1025];
        const SH_SLOW: &[Sh] = &[Sh::Cyclic, Sh::Geometric, Sh::Noise, Sh::CtxSkew, Sh::Zero];
        const SH_IL: &[Sh] = &[Sh::Cyclic, Sh::Noise, Sh::CtxSkew, Sh::Zero];
        const SH_LZ: &[Sh] = &[Sh::Cyclic, Sh::Runs, Sh::Periodic, Sh::Zero, Sh::Noise, Sh::Period, Sh::English, Sh::AllBytes];

        // cheap codecs: the whole grid
        let full = if q {
            def(6, &[N_QUICK, N_ADAPT], K_FULL, SHAPES_ALL)
        } else {
            def(8, &[N_QUICK, N_THOROUGH_EXTRA, N_HUGE], K_FULL, SHAPES_ALL)
        };
        let huff = if q { def(5, &[N_QUICK], K_FULL, SHAPES_ALL) } else { def(7, &[N_QUICK, N_THOROUGH_EXTRA, N_HUGE], K_FULL, SHAPES_ALL) };
        let par = if q { def(5, &[N_SMALL], K_FULL, SHAPES_ALL) } else { def(6, &[N_QUICK, N_THOROUGH_EXTRA], K_FULL, SHAPES_ALL) };
        let rans = if q { def(5, &[N_QUICK], K_RANS, SHAPES_ALL) } else { def(7, &[N_QUICK, N_THOROUGH_EXTRA, N_HUGE], K_RANS, SHAPES_ALL) };
        // codecs whose model construction costs 20..200 ms (up to 1025 trees of 256 symbols per model)
        let ctx = if q { def(3, &[N_CTX], K3, SH_SLOW) } else { def(5, &[N_CTX_T], K3, SHAPES_ALL) };
        let il = if q { def(3, &[N_IL], K3, SH_IL) } else { def(5, &[N_CTX_T], K3, SHAPES_ALL) };
        // O(n * min(n, 32768)) LZ search: n <= 1025 (quick) / 8193 (thorough)
        let lz = if q { def(4, &[N_LZ], K_SMALL, SH_LZ) } else { def(6, &[N_LZ, N_SMALL, N_THOROUGH_EXTRA], K_SMALL, SH_LZ) };
        // (coverage audit) + FarRepeat: the only match lies 32767 / 32768 / 32769 bytes back (window_size = 32768)
        let mut sh_lz_opt: Vec<Sh> = if q { SH_LZ.to_vec() } else { SHAPES_ALL.to_vec() };
        sh_lz_opt.push(Sh::FarRepeat);
        let lz_opt = if q { def(5, &[N_LZ, N_SMALL], K_SMALL, &sh_lz_opt) } else { def(7, &[N_LZ, N_QUICK, N_THOROUGH_EXTRA], K_SMALL, &sh_lz_opt) };
        // (coverage audit) the O(n * 32768) search of DictionaryCompressor on the same three inputs (1-2 s per case)
        let lz_window = def(0, &[&[0]], &[1], &[Sh::FarRepeat]);
        // (coverage audit) SimdHuffmanEncoder::encode switches strategy at 64 / 1024 / 8192 bytes: 8192 also in the quick tier
        let huff_simd = if q { def(5, &[N_QUICK, &[8191, 8192, 8193]], K_FULL, SHAPES_ALL) } else { huff.clone() };
        // (coverage audit) AdaptiveParallelEncoder::select_optimal_encoding: x2 -> x4 at 64 KiB, x4 -> x8 and the FSE
        // branch at 1 MiB; AdaptiveRans64Encoder::select_variant: x4 -> x8 at 73^4 = 28 398 241 bytes
        const N_64K: &[usize] = &[65535, 65536, 65537];
        const N_1M: &[usize] = &[1048575, 1048576, 1048577];
        const N_73P4: &[usize] = &[28398240, 28398241];
        const SH_BIG: &[Sh] = &[Sh::Cyclic, Sh::Geometric, Sh::Noise, Sh::English, Sh::Zero];
        let ap_large = if q { def(0, &[N_64K], &[2, 4, 256], SH_BIG) } else { def(0, &[N_64K, N_1M], &[2, 4, 256], SH_BIG) };
        let ar_x8 = def(0, &[N_73P4], &[3, 256], &[Sh::Cyclic, Sh::Noise]);
        let all_tr = ALL_TRAIN.to_vec();
        let tr4 = vec![Train::Same, Train::Uniform, Train::MinusRarest, Train::English];
        let tr3 = vec![Train::Same, Train::Uniform, Train::MinusRarest];
        let same = vec![Train::Same];

        reg.add(Enum(Family {
            name: "HuffmanEncoder/HuffmanDecoder",
            variants: sv(&["new", "from_frequencies", "new+serialize"]),
            trains: all_tr.clone(),
            space: full.clone(),
            run: run_huffman,
        }));
        reg.add(Enum(Family {
            name: "ContextualHuffman",
            variants: if q {
                sv(&["order0", "order1", "order2", "order2+serialize", "order0+serialize"])
            } else {
                sv(&["order0", "order1", "order2", "order1+serialize", "order2+serialize", "order0+serialize"])
            },
            trains: if q { tr3.clone() } else { tr4.clone() },
            space: ctx.clone(),
            run: run_contextual,
        }));
        reg.add(Enum(Family {
            name: "ContextualHuffman::encode_xN/decode_xN",
            variants: if q { sv(&["x1", "x2", "x4", "x8", "x8+serialize"]) } else { sv(&["x1", "x2", "x4", "x8", "x8+serialize", "x2+serialize"]) },
            trains: if q { tr3.clone() } else { tr4.clone() },
            space: il.clone(),
            run: run_interleaved,
        }));
        reg.add(Enum(Family { name: "Rans64", variants: sv(&["x1", "x2", "x4", "x8"]), trains: all_tr.clone(), space: rans.clone(), run: run_rans }));
        reg.add(Enum(Family {
            name: "AdaptiveRans64Encoder",
            variants: sv(&["encode_adaptive"]),
            trains: same.clone(),
            space: full.clone(),
            run: run_adaptive_rans,
        }));
        reg.add(Enum(Family {
            name: "Fse",
            variants: sv(&[
                "fse_compress",
                "fse_zip",
                "encoder[default]",
                "encoder[fast_compression]",
                "encoder[high_compression]",
                "encoder[realtime]",
                "encoder[balanced]",
                "encoder[default]+object",
                "encoder[high_compression/block=1024]",
                "encoder[high_compression/block=128]",
                "encoder[default/avx2=off]",
            ]),
            trains: same.clone(),
            space: full.clone(),
            run: run_fse,
        }));
        reg.add(Enum(Family {
            name: "Fse/trained",
            variants: sv(&[
                "encoder[realtime]+reused",
                "encoder[default]+reused",
                "encoder[default/adaptive=false]+reused",
                "encoder[default]+dict",
                "encoder[fast_compression]+dict",
                "encoder[default/adaptive=false]+analyzed",
                "encoder[default]+reset",
                "encoder[default/adaptive=false]+reset",
            ]),
            trains: vec![Train::Uniform, Train::Reversed, Train::MinusRarest, Train::English],
            space: huff.clone(),
            run: run_fse,
        }));
        // `DictionaryCompressor::compress` never consults the dictionary it was given: the builder grid is kept small
        reg.add(Enum(Family {
            name: "DictionaryCompressor",
            variants: sv(&[
                "b[3,258,4096,32768]/c[3,258]",
                "b[2,16,16,64]/c[3,258]",
                "b[3,258,4096,32768]/c[12,16]",
                "b[3,258,4096,32768]/c[1,8]",
                "b[4,300,1,1]/c[3,300]",
            ]),
            trains: vec![Train::Same, Train::English],
            space: lz.clone(),
            run: run_dictionary,
        }));
        reg.add(Enum(Family {
            name: "DictionaryCompressor/window",
            variants: if q { sv(&["b[3,258,4096,32768]/c[3,258]"]) } else { sv(&["b[3,258,4096,32768]/c[3,258]", "b[3,258,4096,32768]/c[12,16]"]) },
            trains: same.clone(),
            space: lz_window.clone(),
            run: run_dictionary_window,
        }));
        reg.add(Enum(Family {
            name: "OptimizedDictionaryCompressor",
            variants: sv(&["new", "cfg[3,258,64]", "cfg[12,16,32768]", "cfg[4,300,32768]"]),
            trains: all_tr.clone(),
            space: lz_opt.clone(),
            run: run_optimized_dictionary,
        }));
        reg.add(Enum(Family {
            name: "ParallelHuffman",
            variants: sv(&[
                "x2/default/trained",
                "x4/default/trained",
                "x8/default/trained",
                "x2/default/auto",
                "x4/low_latency/auto",
                "x8/high_throughput/auto",
                "x4/min_parallel=256/trained",
            ]),
            trains: tr3.clone(),
            space: par.clone(),
            run: run_parallel_huffman,
        }));
        reg.add(Enum(Family {
            name: "AdaptiveParallelEncoder",
            variants: sv(&["encode_adaptive"]),
            trains: same.clone(),
            space: full.clone(),
            run: run_adaptive_parallel,
        }));
        reg.add(Enum(Family {
            name: "SimdHuffmanEncoder",
            variants: sv(&["Avx2Bmi2", "Avx2", "Sse42Bmi2", "Sse42", "Bmi2", "Scalar", "new()", "Avx2/batch=7/noprefetch", "Avx2Bmi2/noprefetch"]),
            trains: tr4.clone(),
            space: huff_simd.clone(),
            run: run_simd_huffman,
        }));
        reg.add(Enum(Family {
            name: "AdaptiveParallelEncoder/large",
            variants: sv(&["encode_adaptive"]),
            trains: same.clone(),
            space: ap_large.clone(),
            run: run_adaptive_parallel_large,
        }));
        if !q {
            reg.add(Enum(Family {
                name: "AdaptiveRans64Encoder/x8",
                variants: sv(&["encode_adaptive"]),
                trains: same.clone(),
                space: ar_x8.clone(),
                run: run_adaptive_rans_large,
            }));
        }
    });
}
