//! zvmerge FILE... — prints the size of the union of the sorted u64 hash files written by the shards.
use std::collections::HashSet;

fn main() {
    let mut set: HashSet<u64> = HashSet::new();
    for path in std::env::args().skip(1) {
        let Ok(bytes) = std::fs::read(&path) else { continue };
        for c in bytes.chunks_exact(8) {
            set.insert(u64::from_le_bytes(c.try_into().unwrap()));
        }
    }
    println!("{}", set.len());
}
