//! entropy: Huffman (tree, decoder, contextual orders 0/1/2, interleaved x1/x2/x4/x8, parallel), rANS
//! (N = 1/2/4/8 streams + the adaptive encoder's output), FSE, the LZ-style dictionary coders.
use std::any::Any;
use std::cell::RefCell;
use std::collections::HashMap;
use std::rc::Rc;

use super::{limit_address_space, models, selected_models, split_model, split_sel, tier_payloads, with_model, with_sel};
use crate::{payloads, seed, P};
use zverif::mutate::Seed;
use zverif::Tier;

use zipora::entropy::dictionary::{Dictionary, DictionaryBuilder, DictionaryCompressor, OptimizedDictionaryCompressor};
use zipora::entropy::fse::{fse_compress, fse_decompress, fse_decompress_with_config, fse_unzip, FseConfig, FseDecoder, FseEncoder};
use zipora::entropy::huffman::{
    ContextualHuffmanDecoder, ContextualHuffmanEncoder, HuffmanDecoder, HuffmanEncoder, HuffmanOrder, HuffmanTree, InterleavingFactor,
};
use zipora::entropy::parallel::{ParallelConfig, ParallelHuffmanDecoder, ParallelHuffmanEncoder, ParallelX2Variant, ParallelX4Variant, ParallelX8Variant};
use zipora::entropy::rans::{AdaptiveRans64Encoder, ParallelVariant as RansVariant, ParallelX1, ParallelX2, ParallelX4, ParallelX8, Rans64Decoder, Rans64Encoder};

// ---------------------------------------------------------------------------------------------
// canonical forms: zipora serialises HashMaps in iteration order (RandomState), which would make the
// seed corpus differ from run to run.  The formats are order-insensitive lists, so sort them.

/// `[u16 n]{[symbol][bit_len][ceil(bit_len/8) bytes]}*` sorted by symbol
pub fn canon_tree(b: &[u8]) -> Vec<u8> {
    let mut out = b[..2].to_vec();
    let n = u16::from_le_bytes([b[0], b[1]]) as usize;
    let mut entries: Vec<&[u8]> = Vec::new();
    let mut off = 2;
    for _ in 0..n {
        let l = 2 + (b[off + 1] as usize + 7) / 8;
        entries.push(&b[off..off + l]);
        off += l;
    }
    assert_eq!(off, b.len(), "HuffmanTree::serialize layout changed");
    entries.sort_by_key(|e| e[0]);
    for e in entries {
        out.extend_from_slice(e);
    }
    out
}

/// `[order u8][tree_count u32][ctx_count u32]{[ctx u32][idx u32]}*{[len u32][tree]}*` with the context map
/// sorted by context, the trees (except tree 0) re-ordered by the smallest context that uses them, and
/// every tree canonical.
pub fn canon_ctx(b: &[u8]) -> Vec<u8> {
    let u32at = |o: usize| u32::from_le_bytes([b[o], b[o + 1], b[o + 2], b[o + 3]]);
    let order = b[0];
    let tc = u32at(1) as usize;
    let cc = u32at(5) as usize;
    let mut off = 9;
    let mut ctx: Vec<(u32, u32)> = Vec::new();
    for _ in 0..cc {
        ctx.push((u32at(off), u32at(off + 4)));
        off += 8;
    }
    let mut trees: Vec<Vec<u8>> = Vec::new();
    for _ in 0..tc {
        let l = u32at(off) as usize;
        off += 4;
        trees.push(canon_tree(&b[off..off + l]));
        off += l;
    }
    assert_eq!(off, b.len(), "ContextualHuffmanEncoder::serialize layout changed");
    ctx.sort();
    // new index of each tree
    let mut first_ctx: Vec<u64> = vec![u64::MAX; tc];
    for &(c, i) in &ctx {
        let i = i as usize;
        if i < tc && first_ctx[i] == u64::MAX {
            first_ctx[i] = c as u64 + 1;
        }
    }
    if tc > 0 {
        first_ctx[0] = 0;
    }
    let mut perm: Vec<usize> = (0..tc).collect();
    perm.sort_by_key(|&i| (first_ctx[i], i));
    let mut new_index = vec![0u32; tc];
    for (new, &old) in perm.iter().enumerate() {
        new_index[old] = new as u32;
    }
    let mut out = vec![order];
    out.extend_from_slice(&(tc as u32).to_le_bytes());
    out.extend_from_slice(&(cc as u32).to_le_bytes());
    for (c, i) in ctx {
        out.extend_from_slice(&c.to_le_bytes());
        out.extend_from_slice(&new_index[i as usize].to_le_bytes());
    }
    for &old in &perm {
        out.extend_from_slice(&(trees[old].len() as u32).to_le_bytes());
        out.extend_from_slice(&trees[old]);
    }
    out
}

/// `[u32 n]{[u16 len][seq][u32 offset][u32 length]}*` sorted by sequence
pub fn canon_dict(b: &[u8]) -> Vec<u8> {
    let n = u32::from_le_bytes([b[0], b[1], b[2], b[3]]) as usize;
    let mut entries: Vec<&[u8]> = Vec::new();
    let mut off = 4;
    for _ in 0..n {
        let l = 2 + u16::from_le_bytes([b[off], b[off + 1]]) as usize + 8;
        entries.push(&b[off..off + l]);
        off += l;
    }
    assert_eq!(off, b.len(), "Dictionary::serialize layout changed");
    entries.sort();
    let mut out = b[..4].to_vec();
    for e in entries {
        out.extend_from_slice(e);
    }
    out
}

// ---------------------------------------------------------------------------------------------
// Huffman

fn huff_tree_seeds(t: Tier) -> Vec<Seed> {
    let mut v = Vec::new();
    for (label, p) in tier_payloads(t) {
        if let Ok(enc) = HuffmanEncoder::new(&p) {
            v.push(seed(&format!("tree({label})"), canon_tree(&enc.tree().serialize()), 0));
        }
    }
    v
}

fn huff_decode_seeds(t: Tier) -> Vec<Seed> {
    // layout of a seed: [u16 tree_len][tree bytes][encoded payload]; the parser rebuilds the decoder from the tree
    let mut v = Vec::new();
    for (label, p) in tier_payloads(t) {
        if let Ok(enc) = HuffmanEncoder::new(&p) {
            if let Ok(bits) = enc.encode(&p) {
                if let Some(s) = with_model(&canon_tree(&enc.tree().serialize()), &bits) {
                    v.push(seed(&format!("huff({label})"), s, p.len()));
                }
            }
        }
    }
    v
}

fn huff_sel_seeds(_t: Tier) -> Vec<Seed> {
    let mut v = Vec::new();
    for (sel, label, p) in selected_models() {
        if let Ok(enc) = HuffmanEncoder::new(&p) {
            if let Ok(bits) = enc.encode(&p) {
                v.push(seed(&format!("huff[model={label}]"), with_sel(sel, &bits), p.len()));
            }
        }
    }
    v
}

fn model_tree(m: usize) -> Option<HuffmanTree> {
    HuffmanTree::from_data(&models()[m].1).ok()
}

fn parallel_huff_parse<V: zipora::entropy::parallel::ParallelVariant>(b: &[u8], n: usize) -> bool {
    let Some((m, rest)) = split_sel(b) else { return false };
    let Some(tree) = model_tree(m) else { return false };
    let mut d = ParallelHuffmanDecoder::<V>::new(ParallelConfig::default());
    if d.set_tree(tree).is_err() {
        return false;
    }
    d.decode(rest, n).is_ok()
}

fn parallel_huff_seeds<V: zipora::entropy::parallel::ParallelVariant>(t: Tier) -> Vec<Seed> {
    // (ParallelHuffmanDecoder::decode forwards to HuffmanDecoder::decode of its first decoder)
    let mut v = Vec::new();
    for (sel, label, p) in selected_models() {
        if t == Tier::Quick && !matches!(label, "a" | "abab" | "text") {
            continue;
        }
        if let Ok(mut e) = ParallelHuffmanEncoder::<V>::new(ParallelConfig::default()) {
            if e.train(&p).is_ok() {
                if let Ok(bits) = e.encode(&p) {
                    v.push(seed(&format!("phuff[model={label}]"), with_sel(sel, &bits), p.len()));
                }
            }
        }
    }
    v
}

// contextual: (order, model payload) -> canonical serialized encoder, cached per process
fn order_of(o: u8) -> HuffmanOrder {
    match o {
        0 => HuffmanOrder::Order0,
        1 => HuffmanOrder::Order1,
        _ => HuffmanOrder::Order2,
    }
}

thread_local! {
    static CTX_MODELS: RefCell<HashMap<(u8, usize), Option<Vec<u8>>>> = RefCell::new(HashMap::new());
}

fn ctx_model_bytes(order: u8, m: usize) -> Option<Vec<u8>> {
    CTX_MODELS.with(|c| {
        c.borrow_mut()
            .entry((order, m))
            .or_insert_with(|| ContextualHuffmanEncoder::new(&models()[m].1, order_of(order)).ok().map(|e| canon_ctx(&e.serialize())))
            .clone()
    })
}

fn ctx_model(order: u8, m: usize) -> Option<ContextualHuffmanEncoder> {
    ContextualHuffmanEncoder::deserialize(&ctx_model_bytes(order, m)?).ok()
}

thread_local! {
    // an order-1/2 model over 256 contexts takes ~10 ms to rebuild: keep the decoders per process
    static CTX_DECODERS: RefCell<HashMap<(u8, usize), Option<Rc<ContextualHuffmanDecoder>>>> = RefCell::new(HashMap::new());
    static CTX_ENCODERS: RefCell<HashMap<usize, Option<Rc<ContextualHuffmanEncoder>>>> = RefCell::new(HashMap::new());
    static RANS_DECODERS: RefCell<HashMap<(usize, usize), Option<Rc<dyn Any>>>> = RefCell::new(HashMap::new());
}

fn ctx_decoder(order: u8, m: usize) -> Option<Rc<ContextualHuffmanDecoder>> {
    CTX_DECODERS.with(|c| c.borrow_mut().entry((order, m)).or_insert_with(|| ctx_model(order, m).map(|e| Rc::new(ContextualHuffmanDecoder::new(e)))).clone())
}

/// order-1 encoder (decode_xN lives on the encoder type)
fn ctx_encoder1(m: usize) -> Option<Rc<ContextualHuffmanEncoder>> {
    CTX_ENCODERS.with(|c| c.borrow_mut().entry(m).or_insert_with(|| ctx_model(1, m).map(Rc::new)).clone())
}

/// models used for the contextual seeds: small ones in quick (an order-1 model holds one 256-symbol tree
/// per context, ~0.9 KiB each)
fn ctx_seed_models(t: Tier) -> Vec<(u8, &'static str, Vec<u8>)> {
    selected_models().into_iter().filter(|(_, l, _)| matches!(*l, "abab") || (t == Tier::Thorough && matches!(*l, "a" | "zeros" | "text"))).collect()
}

fn ctx_deser_seeds(t: Tier) -> Vec<Seed> {
    let mut v = Vec::new();
    for o in 0..3u8 {
        // (order 1 and order 2 models have the same layout; rebuilding their 256-symbol trees costs ~1 ms per tree)
        if t == Tier::Quick && o == 2 {
            continue;
        }
        for (sel, label, _) in ctx_seed_models(t) {
            if let Some(b) = ctx_model_bytes(o, sel as usize) {
                v.push(seed(&format!("ctx(order{o},{label})"), b, 0));
            }
        }
    }
    v
}

/// compact models (a few contexts, a few trees: every count, index and tree-length field inside the mutated
/// windows) of every order, plus the tier's regular models
fn ctx_use_seeds(t: Tier) -> Vec<Seed> {
    let mut v = Vec::new();
    for o in 0..3u8 {
        for (label, p) in [("ab", &b"ab"[..]), ("abc", b"abcabcabc")] {
            // (every context tree spans all 256 symbols, ~0.8 KiB and ~1 ms each; order 1 and 2 share the layout: quick has the order-0 models and one order-1 model)
            if t == Tier::Quick && (o == 2 || (o == 1 && label == "abc")) {
                continue;
            }
            if let Ok(e) = ContextualHuffmanEncoder::new(p, order_of(o)) {
                v.push(seed(&format!("ctx(order{o},{label})"), canon_ctx(&e.serialize()), 0));
            }
        }
    }
    if t == Tier::Thorough {
        v.extend(ctx_deser_seeds(t));
    }
    v
}

/// every byte as a context (order 1), every pair of the training alphabets (order 2), unknown symbols
fn ctx_probes() -> Vec<Vec<u8>> {
    let ramp: Vec<u8> = (0..=255u8).collect();
    let mut pairs = Vec::new();
    for a in b"abc\x00\xff" {
        for b in b"abc\x00\xff" {
            pairs.extend_from_slice(&[*a, *b, b'a']);
        }
    }
    vec![b"a".to_vec(), b"ab".to_vec(), b"abcabcabc".to_vec(), b"abababababababab".to_vec(), ramp, pairs]
}

fn ctx_deser_decode_seeds<const O: u8>(t: Tier) -> Vec<Seed> {
    let mut v = Vec::new();
    for (sel, label, p) in ctx_seed_models(t) {
        let Some(mb) = ctx_model_bytes(O, sel as usize) else { continue };
        let Some(enc) = ctx_model(O, sel as usize) else { continue };
        if let Ok(bits) = enc.encode(&p) {
            if let Some(s) = with_model(&mb, &bits) {
                v.push(seed(&format!("ctx+decode(order{O},{label})"), s, p.len()));
            }
        }
    }
    v
}

fn ctx_deser_decode_parse(b: &[u8], n: usize) -> bool {
    let Some((model, rest)) = split_model(b) else { return false };
    match ContextualHuffmanEncoder::deserialize(model) {
        Ok(enc) => ContextualHuffmanDecoder::new(enc).decode(rest, n).is_ok(),
        Err(_) => false,
    }
}

fn ctx_sel_seeds<const O: u8>(t: Tier) -> Vec<Seed> {
    let mut v = Vec::new();
    for (sel, label, p) in selected_models() {
        if t == Tier::Quick && !matches!(label, "a" | "abab" | "text") {
            continue;
        }
        let Some(enc) = ctx_model(O, sel as usize) else { continue };
        if let Ok(bits) = enc.encode(&p) {
            v.push(seed(&format!("ctx[order{O},model={label}]"), with_sel(sel, &bits), p.len()));
        }
    }
    v
}

fn ctx_sel_parse<const O: u8>(b: &[u8], n: usize) -> bool {
    let Some((m, rest)) = split_sel(b) else { return false };
    let Some(dec) = ctx_decoder(O, m) else { return false };
    dec.decode(rest, n).is_ok()
}

fn factor(n: u8) -> InterleavingFactor {
    match n {
        1 => InterleavingFactor::X1,
        2 => InterleavingFactor::X2,
        4 => InterleavingFactor::X4,
        _ => InterleavingFactor::X8,
    }
}

/// decode_xN rebuilds a 257 x 4096 decode table per call (tens of ms): few, short seeds
fn xn_models(t: Tier) -> Vec<(u8, &'static str, Vec<u8>)> {
    selected_models().into_iter().filter(|(_, l, _)| matches!(*l, "abab") || (t == Tier::Thorough && matches!(*l, "a" | "text"))).collect()
}

fn xn_sel_seeds<const N: u8>(t: Tier) -> Vec<Seed> {
    let mut v = Vec::new();
    for (sel, label, p) in xn_models(t) {
        let Some(enc) = ctx_model(1, sel as usize) else { continue };
        // quick: the full payload for x4, its first 3 bytes for the other factors (every case costs ~25 ms)
        let p = if t == Tier::Quick && N != 4 { p[..p.len().min(3)].to_vec() } else { p };
        if let Ok(bits) = enc.encode_with_interleaving(&p, factor(N)) {
            v.push(seed(&format!("x{N}[model={label}][{}]", p.len()), with_sel(sel, &bits), p.len()));
        }
    }
    v
}

fn xn_call(enc: &ContextualHuffmanEncoder, n: u8, data: &[u8], out: usize) -> bool {
    match n {
        1 => enc.decode_x1(data, out).is_ok(),
        2 => enc.decode_x2(data, out).is_ok(),
        4 => enc.decode_x4(data, out).is_ok(),
        _ => enc.decode_x8(data, out).is_ok(),
    }
}

fn xn_sel_parse<const N: u8>(b: &[u8], n: usize) -> bool {
    let Some((m, rest)) = split_sel(b) else { return false };
    let Some(enc) = ctx_encoder1(m) else { return false };
    xn_call(&enc, N, rest, n)
}

fn xn_deser_seeds(t: Tier) -> Vec<Seed> {
    // [factor byte][u16 model_len][model][payload]
    let mut v = Vec::new();
    for n in [1u8, 2, 4, 8] {
        for (sel, label, p) in xn_models(t) {
            if t == Tier::Quick && n != 4 {
                continue;
            }
            let Some(mb) = ctx_model_bytes(1, sel as usize) else { continue };
            let Some(enc) = ctx_model(1, sel as usize) else { continue };
            if let Ok(bits) = enc.encode_with_interleaving(&p, factor(n)) {
                if let Some(s) = with_model(&mb, &bits) {
                    v.push(seed(&format!("ctx+x{n}({label})"), with_sel(n, &s), p.len()));
                }
            }
        }
    }
    v
}

fn xn_deser_parse(b: &[u8], n: usize) -> bool {
    let Some((&f, rest)) = b.split_first() else { return false };
    let Some((model, data)) = split_model(rest) else { return false };
    match ContextualHuffmanEncoder::deserialize(model) {
        Ok(enc) => enc.decode_with_interleaving(data, n, factor(f)).is_ok(),
        Err(_) => false,
    }
}

// ---------------------------------------------------------------------------------------------
// rANS

fn freqs(p: &[u8]) -> [u32; 256] {
    let mut f = [0u32; 256];
    for &b in p {
        f[b as usize] += 1;
    }
    f
}

fn rans_seeds<V: RansVariant + 'static>(_t: Tier) -> Vec<Seed> {
    let mut v = Vec::new();
    for (sel, label, p) in selected_models() {
        if let Ok(enc) = Rans64Encoder::<V>::new(&freqs(&p)) {
            if let Ok(bytes) = enc.encode(&p) {
                v.push(seed(&format!("rans[model={label}]"), with_sel(sel, &bytes), p.len()));
            }
            if sel == 0 {
                if let Ok(bytes) = enc.encode(&[]) {
                    v.push(seed("rans[empty]", with_sel(sel, &bytes), 0));
                }
            }
        }
    }
    v
}

/// Rans64Encoder::new normalises the frequencies in ~0.5 ms: one decoder per (N, model) and process
fn rans_decoder<V: RansVariant + 'static>(m: usize) -> Option<Rc<Rans64Decoder<V>>> {
    let any = RANS_DECODERS.with(|c| {
        c.borrow_mut()
            .entry((V::N, m))
            .or_insert_with(|| Rans64Encoder::<V>::new(&freqs(&models()[m].1)).ok().map(|e| Rc::new(Rans64Decoder::<V>::new(&e)) as Rc<dyn Any>))
            .clone()
    })?;
    any.downcast::<Rans64Decoder<V>>().ok()
}

fn rans_parse<V: RansVariant + 'static>(b: &[u8], n: usize) -> bool {
    limit_address_space();
    let Some((m, rest)) = split_sel(b) else { return false };
    let Some(dec) = rans_decoder::<V>(m) else { return false };
    dec.decode(rest, n).is_ok()
}

fn rans_adaptive_seeds(_t: Tier) -> Vec<Seed> {
    let a = AdaptiveRans64Encoder::new();
    let mut v = Vec::new();
    for (sel, label, p) in selected_models() {
        if let Ok(bytes) = a.encode_adaptive(&p) {
            v.push(seed(&format!("rans_adaptive[{label}:{}]", a.select_variant(p.len())), with_sel(sel, &bytes), p.len()));
        }
    }
    v
}

/// There is no adaptive *decoder* in zipora: the reader has to pick the variant the adaptive encoder chose
/// (a function of the original length) and the frequencies of the original data.
fn rans_adaptive_parse(b: &[u8], n: usize) -> bool {
    match AdaptiveRans64Encoder::new().select_variant(n) {
        "x1" => rans_parse::<ParallelX1>(b, n),
        "x2" => rans_parse::<ParallelX2>(b, n),
        "x4" => rans_parse::<ParallelX4>(b, n),
        _ => rans_parse::<ParallelX8>(b, n),
    }
}

// ---------------------------------------------------------------------------------------------
// FSE

fn fse_seeds(_t: Tier) -> Vec<Seed> {
    let mut v = Vec::new();
    for (label, p) in payloads() {
        if label == "ramp" {
            continue; // 256 distinct symbols: a 1.3 KiB frequency table, nothing new
        }
        if let Ok(b) = fse_compress(&p) {
            v.push(seed(&format!("fse({label})"), b, 0));
        }
    }
    v
}

/// the thin wrappers around FseDecoder::decompress: full corpus only in thorough
fn fse_wrapper_seeds(t: Tier) -> Vec<Seed> {
    fse_seeds(t).into_iter().filter(|s| t == Tier::Thorough || s.label == "fse(a)" || s.label == "fse(text128)").collect()
}

fn fse_parallel_config() -> FseConfig {
    FseConfig { parallel_blocks: Some(2), block_size: 32, ..FseConfig::default() }
}

fn fse_parallel_seeds(_t: Tier) -> Vec<Seed> {
    let mut v = Vec::new();
    for (label, p) in payloads() {
        if p.len() <= 64 || label == "ramp" {
            continue;
        }
        if let Ok(mut e) = FseEncoder::new(fse_parallel_config()) {
            if let Ok(b) = e.compress(&p) {
                v.push(seed(&format!("fse_parallel({label})"), b, 0));
            }
        }
    }
    v
}

// ---------------------------------------------------------------------------------------------
// entropy::dictionary

fn dict_seeds(_t: Tier) -> Vec<Seed> {
    let mut v = vec![seed("dict(empty)", Dictionary::new().serialize(), 0)];
    for (label, p) in payloads() {
        if p.len() > 64 || p.is_empty() {
            continue;
        }
        let d = DictionaryBuilder::new().max_entries(12).build(&p);
        v.push(seed(&format!("dict({label})"), canon_dict(&d.serialize()), 0));
    }
    v
}

/// Token stream `[0][byte]` / `[1][offset u32][length u32]`.  Every mutant that enlarges a `length`
/// field makes the decoder emit that many bytes (a genuine finding, but each such case runs until the
/// address-space limit): quick keeps one match-bearing seed ("abab": two literals + one match).
fn dict_compress_seeds(t: Tier) -> Vec<Seed> {
    let c = DictionaryCompressor::new(DictionaryBuilder::new().build(b"the quick brown fox"));
    let mut v = Vec::new();
    for (label, p) in payloads() {
        if p.len() > 130 || (t == Tier::Quick && !matches!(label, "empty" | "a" | "abab" | "text")) {
            continue;
        }
        if let Ok(b) = c.compress(&p) {
            v.push(seed(&format!("dictz({label})"), b, 0));
        }
    }
    v
}

fn optdict_compress_seeds(t: Tier) -> Vec<Seed> {
    let mut v = Vec::new();
    for (label, p) in payloads() {
        if p.len() > 130 || p.is_empty() || (t == Tier::Quick && !matches!(label, "a" | "abab" | "text")) {
            continue;
        }
        if let Ok(c) = OptimizedDictionaryCompressor::new(&p) {
            if let Ok(b) = c.compress(&p) {
                v.push(seed(&format!("optdictz({label})"), b, 0));
            }
        }
    }
    v
}

thread_local! {
    static OPTDICT: OptimizedDictionaryCompressor = OptimizedDictionaryCompressor::new(b"the quick brown fox jumps over the lazy dog").expect("optimized dictionary compressor");
}

pub fn all(tier: Tier) -> Vec<P> {
    // `small` (all strings <= 2 bytes + all 3/4-byte strings over 8 hostile bytes, x3 for parsers with a
    // length argument) is switched on where 1..4-byte inputs are meaningful for the format; the thin
    // wrappers and the selector/model-prefixed parsers get it in the thorough tier only.
    let th = tier == Tier::Thorough;
    vec![
        P {
            name: "HuffmanTree::deserialize",
            seeds: huff_tree_seeds,
            parse: |b, _| match HuffmanTree::deserialize(b) {
                Ok(t) => {
                    // (coverage audit) read everything the loaded tree offers: every code, the depth, its own re-serialisation
                    let mut acc = t.max_code_length();
                    for s in 0..=255u8 {
                        acc += t.get_code(s).map(|c| c.len()).unwrap_or(0);
                    }
                    std::hint::black_box((acc, t.serialize().len()));
                    true
                }
                Err(_) => false,
            },
            len_arg: false,
            small: true,
        },
        P {
            name: "HuffmanTree::deserialize + HuffmanDecoder::decode",
            seeds: huff_decode_seeds,
            parse: |b, n| {
                let Some((tree, rest)) = split_model(b) else { return false };
                match HuffmanTree::deserialize(tree) {
                    Ok(tree) => HuffmanDecoder::new(tree).decode(rest, n).is_ok(),
                    Err(_) => false,
                }
            },
            len_arg: true,
            small: false,
        },
        P {
            name: "HuffmanDecoder::decode[valid tree]",
            seeds: huff_sel_seeds,
            parse: |b, n| {
                let Some((m, rest)) = split_sel(b) else { return false };
                match model_tree(m) {
                    Some(tree) => HuffmanDecoder::new(tree).decode(rest, n).is_ok(),
                    None => false,
                }
            },
            len_arg: true,
            small: th,
        },
        P { name: "ParallelHuffmanDecoder<X2>::decode[valid tree]", seeds: parallel_huff_seeds::<ParallelX2Variant>, parse: parallel_huff_parse::<ParallelX2Variant>, len_arg: true, small: false },
        P { name: "ParallelHuffmanDecoder<X4>::decode[valid tree]", seeds: parallel_huff_seeds::<ParallelX4Variant>, parse: parallel_huff_parse::<ParallelX4Variant>, len_arg: true, small: false },
        P { name: "ParallelHuffmanDecoder<X8>::decode[valid tree]", seeds: parallel_huff_seeds::<ParallelX8Variant>, parse: parallel_huff_parse::<ParallelX8Variant>, len_arg: true, small: false },
        // (needs >= 9 bytes before its first length field is complete: short strings only reach the "truncated" exits)
        P { name: "ContextualHuffmanEncoder::deserialize", seeds: ctx_deser_seeds, parse: |b, _| ContextualHuffmanEncoder::deserialize(b).is_ok(), len_arg: false, small: th },
        // (coverage audit) a loaded model must be usable as an ENCODER too: `encode` / `estimate_compression_ratio` index
        // `trees[context_map[ctx]]` for every context the probe walks through, not only those of one decoded stream
        P {
            name: "ContextualHuffmanEncoder::deserialize + encode/estimate over every context",
            seeds: ctx_use_seeds,
            parse: |b, _| match ContextualHuffmanEncoder::deserialize(b) {
                Ok(enc) => {
                    let mut acc = enc.tree_count() + enc.order() as usize;
                    for probe in ctx_probes() {
                        acc += enc.encode(&probe).map(|v| v.len()).unwrap_or(0);
                        acc += (enc.estimate_compression_ratio(&probe) * 8.0) as usize;
                    }
                    std::hint::black_box(acc);
                    true
                }
                Err(_) => false,
            },
            len_arg: false,
            small: false,
        },
        P { name: "ContextualHuffmanEncoder::deserialize + ContextualHuffmanDecoder::decode[order0]", seeds: ctx_deser_decode_seeds::<0>, parse: ctx_deser_decode_parse, len_arg: true, small: false },
        P { name: "ContextualHuffmanEncoder::deserialize + ContextualHuffmanDecoder::decode[order1]", seeds: ctx_deser_decode_seeds::<1>, parse: ctx_deser_decode_parse, len_arg: true, small: false },
        P { name: "ContextualHuffmanEncoder::deserialize + ContextualHuffmanDecoder::decode[order2]", seeds: ctx_deser_decode_seeds::<2>, parse: ctx_deser_decode_parse, len_arg: true, small: false },
        P { name: "ContextualHuffmanDecoder::decode[order0, valid model]", seeds: ctx_sel_seeds::<0>, parse: ctx_sel_parse::<0>, len_arg: true, small: th },
        P { name: "ContextualHuffmanDecoder::decode[order1, valid model]", seeds: ctx_sel_seeds::<1>, parse: ctx_sel_parse::<1>, len_arg: true, small: th },
        P { name: "ContextualHuffmanDecoder::decode[order2, valid model]", seeds: ctx_sel_seeds::<2>, parse: ctx_sel_parse::<2>, len_arg: true, small: th },
        P { name: "ContextualHuffmanEncoder::decode_x1[valid model]", seeds: xn_sel_seeds::<1>, parse: xn_sel_parse::<1>, len_arg: true, small: false },
        P { name: "ContextualHuffmanEncoder::decode_x2[valid model]", seeds: xn_sel_seeds::<2>, parse: xn_sel_parse::<2>, len_arg: true, small: false },
        P { name: "ContextualHuffmanEncoder::decode_x4[valid model]", seeds: xn_sel_seeds::<4>, parse: xn_sel_parse::<4>, len_arg: true, small: false },
        P { name: "ContextualHuffmanEncoder::decode_x8[valid model]", seeds: xn_sel_seeds::<8>, parse: xn_sel_parse::<8>, len_arg: true, small: false },
        P { name: "ContextualHuffmanEncoder::deserialize + decode_with_interleaving", seeds: xn_deser_seeds, parse: xn_deser_parse, len_arg: true, small: false },
        P { name: "Rans64Decoder<X1>::decode[valid model]", seeds: rans_seeds::<ParallelX1>, parse: rans_parse::<ParallelX1>, len_arg: true, small: true },
        P { name: "Rans64Decoder<X2>::decode[valid model]", seeds: rans_seeds::<ParallelX2>, parse: rans_parse::<ParallelX2>, len_arg: true, small: th },
        P { name: "Rans64Decoder<X4>::decode[valid model]", seeds: rans_seeds::<ParallelX4>, parse: rans_parse::<ParallelX4>, len_arg: true, small: th },
        P { name: "Rans64Decoder<X8>::decode[valid model]", seeds: rans_seeds::<ParallelX8>, parse: rans_parse::<ParallelX8>, len_arg: true, small: th },
        P { name: "AdaptiveRans64Encoder::encode_adaptive -> Rans64Decoder<select_variant(len)>::decode", seeds: rans_adaptive_seeds, parse: rans_adaptive_parse, len_arg: true, small: false },
        P {
            name: "FseDecoder::decompress",
            seeds: fse_seeds,
            parse: |b, _| {
                limit_address_space();
                FseDecoder::new().decompress(b).is_ok()
            },
            len_arg: false,
            small: true,
        },
        P {
            name: "FseDecoder::decompress[parallel blocks]",
            seeds: fse_parallel_seeds,
            parse: |b, _| {
                limit_address_space();
                FseDecoder::new().decompress(b).is_ok()
            },
            len_arg: false,
            small: false,
        },
        P {
            name: "fse_decompress",
            seeds: fse_wrapper_seeds,
            parse: |b, _| {
                limit_address_space();
                fse_decompress(b).is_ok()
            },
            len_arg: false,
            small: th,
        },
        P {
            name: "fse_unzip",
            seeds: fse_wrapper_seeds,
            parse: |b, _| {
                limit_address_space();
                fse_unzip(b).is_ok()
            },
            len_arg: false,
            small: th,
        },
        P {
            name: "fse_decompress_with_config[fast_compression]",
            seeds: fse_wrapper_seeds,
            parse: |b, _| {
                limit_address_space();
                fse_decompress_with_config(b, FseConfig::fast_compression()).is_ok()
            },
            len_arg: false,
            small: th,
        },
        P {
            name: "entropy::dictionary::Dictionary::deserialize",
            seeds: dict_seeds,
            parse: |b, _| match Dictionary::deserialize(b) {
                Ok(d) => {
                    // (coverage audit) look entries up, re-serialise, and compress with the loaded dictionary
                    let mut acc = d.len() + d.is_empty() as usize + d.serialize().len();
                    for probe in [&b""[..], b"a", b"ab", b"abab", b"the ", &[0u8; 4]] {
                        acc += d.get(probe).map(|e| e.offset as usize ^ e.length as usize).unwrap_or(0);
                    }
                    let c = DictionaryCompressor::new(d);
                    acc += c.compress(b"abababababababab the quick brown fox").map(|v| v.len()).unwrap_or(0);
                    std::hint::black_box((acc, c.dictionary().len()));
                    true
                }
                Err(_) => false,
            },
            len_arg: false,
            small: true,
        },
        P {
            name: "DictionaryCompressor::decompress",
            seeds: dict_compress_seeds,
            parse: |b, _| {
                limit_address_space();
                DictionaryCompressor::new(Dictionary::new()).decompress(b).is_ok()
            },
            len_arg: false,
            small: true,
        },
        P {
            name: "Dictionary::deserialize + DictionaryCompressor::decompress",
            seeds: |t| {
                let d = canon_dict(&DictionaryBuilder::new().max_entries(4).build(b"abababababababab").serialize());
                // (the token stream is covered by the entry above; here it rides behind a parsed model)
                dict_compress_seeds(t).into_iter().filter(|s| t == Tier::Thorough || s.label != "dictz(abab)").filter_map(|s| with_model(&d, &s.bytes).map(|b| seed(&s.label, b, 0))).collect()
            },
            parse: |b, _| {
                limit_address_space();
                let Some((model, rest)) = split_model(b) else { return false };
                match Dictionary::deserialize(model) {
                    Ok(d) => DictionaryCompressor::new(d).decompress(rest).is_ok(),
                    Err(_) => false,
                }
            },
            len_arg: false,
            small: false,
        },
        P {
            name: "OptimizedDictionaryCompressor::decompress",
            seeds: optdict_compress_seeds,
            parse: |b, _| {
                limit_address_space();
                OPTDICT.with(|c| c.decompress(b).is_ok())
            },
            len_arg: false,
            small: th,
        },
    ]
}
