//! The parsers under test.  Each entry: seeds (valid encodings) + parse closure.
use super::{payloads, seed, P};
use zverif::mutate::Seed;
use zverif::Tier;

use zipora::entropy::huffman::{HuffmanDecoder, HuffmanEncoder, HuffmanTree};
use zipora::io::var_int::VarInt;

fn varint_seeds(_t: Tier) -> Vec<Seed> {
    [0u64, 1, 127, 128, 16383, 16384, u32::MAX as u64, u64::MAX >> 1, u64::MAX]
        .iter()
        .map(|v| seed(&format!("varint({v})"), VarInt::encode(*v), 0))
        .collect()
}

fn varint_multi_seeds(_t: Tier) -> Vec<Seed> {
    vec![seed("multi[0,1,300,MAX]", VarInt::encode_multiple([0u64, 1, 300, u64::MAX]), 0)]
}

fn hex_seeds(_t: Tier) -> Vec<Seed> {
    vec![seed("hex(00ff10)", b"00ff10".to_vec(), 0), seed("hex(DEADbeef)", b"DEADbeef".to_vec(), 0)]
}

fn huff_tree_seeds(_t: Tier) -> Vec<Seed> {
    let mut v = Vec::new();
    for (label, p) in payloads() {
        if let Ok(enc) = HuffmanEncoder::new(&p) {
            v.push(seed(&format!("tree({label})"), enc.tree().serialize(), 0));
        }
    }
    v
}

fn huff_decode_seeds(_t: Tier) -> Vec<Seed> {
    // layout of a seed: [u16 tree_len][tree bytes][encoded payload]; the parser rebuilds the decoder from the tree
    let mut v = Vec::new();
    for (label, p) in payloads() {
        if let Ok(enc) = HuffmanEncoder::new(&p) {
            if let Ok(bits) = enc.encode(&p) {
                let tree = enc.tree().serialize();
                let mut s = (tree.len() as u16).to_le_bytes().to_vec();
                s.extend_from_slice(&tree);
                s.extend_from_slice(&bits);
                v.push(seed(&format!("huff({label})"), s, p.len()));
            }
        }
    }
    v
}

pub fn all(_tier: Tier) -> Vec<P> {
    vec![
        P { name: "VarInt::decode", seeds: varint_seeds, parse: |b, _| VarInt::decode(b).is_ok(), len_arg: false, small: true },
        P { name: "VarInt::decode_multiple", seeds: varint_multi_seeds, parse: |b, _| VarInt::decode_multiple(b).is_ok(), len_arg: false, small: true },
        P { name: "hex_decode_bytes", seeds: hex_seeds, parse: |b, _| zipora::string::hex_decode_bytes(b).is_ok(), len_arg: false, small: true },
        P { name: "HuffmanTree::deserialize", seeds: huff_tree_seeds, parse: |b, _| HuffmanTree::deserialize(b).is_ok(), len_arg: false, small: true },
        P {
            name: "HuffmanTree::deserialize + HuffmanDecoder::decode",
            seeds: huff_decode_seeds,
            parse: |b, n| {
                if b.len() < 2 {
                    return false;
                }
                let tl = u16::from_le_bytes([b[0], b[1]]) as usize;
                if b.len() < 2 + tl {
                    return false;
                }
                match HuffmanTree::deserialize(&b[2..2 + tl]) {
                    Ok(tree) => HuffmanDecoder::new(tree).decode(&b[2 + tl..], n).is_ok(),
                    Err(_) => false,
                }
            },
            len_arg: true,
            small: false,
        },
    ]
}
