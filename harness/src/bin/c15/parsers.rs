//! The parsers under test.  Each entry: seeds (valid encodings) + parse closure.
//!
//! Layout: this file holds the shared helpers and the aggregator `all(tier)`; the entries live in the
//! sibling files `p_entropy.rs`, `p_compression.rs`, `p_stores.rs`, `p_io.rs`, `p_text.rs`.
//!
//! Conventions
//! * "selector byte": where a decoder needs a model (tree / frequency table / trained compressor) that
//!   is NOT part of the byte stream, the first input byte selects one of the valid models
//!   (`models()[b[0] % len]`) and the rest is the payload handed to the decoder.  Mutating the selector
//!   only picks another *valid* model (decoding a stream with a mismatching model is a legitimate hostile
//!   input as well).  Parsers whose model IS parsed from bytes carry model and payload in one seed.
//! * file-based loaders write the mutant into `/dev/shm/zverif/c15-<pid>/` (created per case, removed
//!   after the case by a drop guard, also on unwinding).
use std::path::{Path, PathBuf};

use super::{payloads, P};
use zverif::Tier;

#[path = "p_audit.rs"]
mod p_audit;
#[path = "p_compression.rs"]
mod p_compression;
#[path = "p_entropy.rs"]
mod p_entropy;
#[path = "p_io.rs"]
mod p_io;
#[path = "p_stores.rs"]
mod p_stores;
#[path = "p_text.rs"]
mod p_text;

/// Payloads usable as training data / models (non-empty), in a stable order (the selector byte indexes
/// this list; do not reorder).
pub fn models() -> Vec<(&'static str, Vec<u8>)> {
    payloads().into_iter().filter(|(_, p)| !p.is_empty()).collect()
}

/// Payloads used for seeds in this tier (quick: without the 256-byte ramp unless a parser asks for it).
pub fn tier_payloads(tier: Tier) -> Vec<(&'static str, Vec<u8>)> {
    match tier {
        Tier::Quick => payloads().into_iter().filter(|(l, _)| *l != "ramp" && *l != "zeros").collect(),
        Tier::Thorough => payloads(),
    }
}

/// `(selector, label, payload)` for every model.
pub fn selected_models() -> Vec<(u8, &'static str, Vec<u8>)> {
    models().into_iter().enumerate().map(|(i, (l, p))| (i as u8, l, p)).collect()
}

pub fn with_sel(sel: u8, enc: &[u8]) -> Vec<u8> {
    let mut v = Vec::with_capacity(enc.len() + 1);
    v.push(sel);
    v.extend_from_slice(enc);
    v
}

/// Split `[selector][rest]`; the selector is reduced modulo the number of models.
pub fn split_sel(b: &[u8]) -> Option<(usize, &[u8])> {
    let (&s, rest) = b.split_first()?;
    Some((s as usize % models().len(), rest))
}

/// `[u16 le model_len][model][payload]`
pub fn with_model(model: &[u8], enc: &[u8]) -> Option<Vec<u8>> {
    if model.len() > u16::MAX as usize {
        return None;
    }
    let mut v = (model.len() as u16).to_le_bytes().to_vec();
    v.extend_from_slice(model);
    v.extend_from_slice(enc);
    Some(v)
}

pub fn split_model(b: &[u8]) -> Option<(&[u8], &[u8])> {
    if b.len() < 2 {
        return None;
    }
    let ml = u16::from_le_bytes([b[0], b[1]]) as usize;
    if b.len() < 2 + ml {
        return None;
    }
    Some((&b[2..2 + ml], &b[2 + ml..]))
}

// ------------------------------------------------------------------------------------------------
// scratch files for path-based loaders

pub struct Scratch {
    pub dir: PathBuf,
}

impl Scratch {
    /// A fresh, empty directory unique to this process (pid taken at call time: we run in a forked child).
    pub fn new() -> Scratch {
        sweep_stale_scratch();
        let dir = PathBuf::from(format!("/dev/shm/zverif/c15-{}", std::process::id()));
        let _ = std::fs::remove_dir_all(&dir);
        std::fs::create_dir_all(&dir).expect("create c15 scratch dir");
        Scratch { dir }
    }
    pub fn file(&self, name: &str, bytes: &[u8]) -> PathBuf {
        let p = self.dir.join(name);
        std::fs::write(&p, bytes).expect("write c15 scratch file");
        p
    }
}

/// A case that aborts its process cannot remove its directory.  Once per process: delete the `c15-<pid>`
/// directories whose process no longer exists.
fn sweep_stale_scratch() {
    use std::sync::atomic::{AtomicBool, Ordering};
    static DONE: AtomicBool = AtomicBool::new(false);
    if DONE.swap(true, Ordering::Relaxed) {
        return;
    }
    let Ok(rd) = std::fs::read_dir("/dev/shm/zverif") else { return };
    for e in rd.flatten() {
        let name = e.file_name();
        let Some(pid) = name.to_str().and_then(|n| n.strip_prefix("c15-")).and_then(|p| p.parse::<u32>().ok()) else { continue };
        if pid != std::process::id() && !Path::new(&format!("/proc/{pid}")).exists() {
            let _ = std::fs::remove_dir_all(e.path());
        }
    }
}

impl Drop for Scratch {
    fn drop(&mut self) {
        let _ = std::fs::remove_dir_all(&self.dir);
    }
}

/// Write `bytes` to a scratch file, run `f(path)`, remove file and directory (also when `f` panics).
pub fn with_file<R>(bytes: &[u8], f: impl FnOnce(&Path) -> R) -> R {
    let s = Scratch::new();
    let p = s.file("case.bin", bytes);
    f(&p)
}

/// Produce bytes by letting an encoder write to a scratch path.
pub fn bytes_via_file(f: impl FnOnce(&Path) -> bool) -> Option<Vec<u8>> {
    let s = Scratch::new();
    let p = s.dir.join("seed.bin");
    if !f(&p) {
        return None;
    }
    std::fs::read(&p).ok()
}

// ------------------------------------------------------------------------------------------------
// cost control for decompression bombs

/// Head-room (MiB) above the process's current address-space size that parsers get which can be driven
/// into producing output / looping in proportion to an unvalidated length field (LZ back-reference lengths,
/// `original_size` headers).
pub const BOMB_HEADROOM_MIB: u64 = 128;

/// Lower this process's soft RLIMIT_AS to (current VmSize + `BOMB_HEADROOM_MIB`), once.  The engine runs every
/// case in a forked child under RLIMIT_AS 2 GiB; a mutant whose length field says "4 GiB" then pushes bytes
/// for several seconds - past the 10 s watchdog when the 16 shards compete for memory - before the
/// allocator gives up, and the verdict flips between `crash/signal_6` and `timeout/timeout_10s` with the
/// load of the machine.  With 128 MiB of head-room the same run-away dies after ~0.1 s, always as
/// `crash/signal_6` (allocation failure -> abort), which also keeps the enumeration and the replay of the
/// recorded witnesses in every shard affordable.  It cannot hide anything: a single allocation above
/// 64*(input+expected)+1 MiB (~1 MiB for these inputs) is a violation already, two orders of magnitude
/// below the head-room.  Only called from `parse` functions, i.e. inside the engine's child.
/// set by the seed-dump mode, which runs every parser in ONE process
pub static NO_AS_LIMIT: std::sync::atomic::AtomicBool = std::sync::atomic::AtomicBool::new(false);

pub fn limit_address_space() {
    use std::sync::atomic::{AtomicBool, Ordering};
    static DONE: AtomicBool = AtomicBool::new(false);
    if NO_AS_LIMIT.load(Ordering::Relaxed) || DONE.swap(true, Ordering::Relaxed) {
        return;
    }
    let vm_kib = std::fs::read_to_string("/proc/self/status")
        .ok()
        .and_then(|s| s.lines().find(|l| l.starts_with("VmSize:")).and_then(|l| l.split_whitespace().nth(1).and_then(|n| n.parse::<u64>().ok())));
    let Some(vm_kib) = vm_kib else { return };
    unsafe {
        let mut lim = libc::rlimit { rlim_cur: 0, rlim_max: 0 };
        if libc::getrlimit(libc::RLIMIT_AS, &mut lim) == 0 {
            let want = vm_kib * 1024 + (BOMB_HEADROOM_MIB << 20);
            if lim.rlim_cur == libc::RLIM_INFINITY || lim.rlim_cur > want {
                lim.rlim_cur = want;
                libc::setrlimit(libc::RLIMIT_AS, &lim);
            }
        }
    }
}

/// Oracle correction for the bincode-based loaders.  serde's `size_hint::cautious` pre-allocates at most
/// 1 MiB worth of elements whatever the length prefix says; for `HashMap<u32, PatternInfo>` hashbrown rounds
/// that up to one 1.8 MiB table.  That is a fixed cap, not an allocation proportional to an unvalidated
/// length, but it sits just above the engine's threshold (64 * input + 1 MiB) for these ~100-byte inputs.
/// Called after the parser returned: if nothing larger than `limit` was requested the high-water mark is
/// reset (`watch_allocations(true)` zeroes it and keeps watching); anything larger stays visible.
pub fn forgive_bounded_prealloc(limit: usize) {
    if zverif::alloc::max_single_allocation() <= limit {
        zverif::alloc::watch_allocations(true);
    }
}

/// serde's cautious pre-allocation (1 MiB of elements) plus hashbrown's power-of-two rounding
pub const SERDE_CAUTIOUS_CAP: usize = 4 << 20;

// ------------------------------------------------------------------------------------------------

pub fn all(tier: Tier) -> Vec<P> {
    let mut v = Vec::new();
    v.extend(p_io::all(tier));
    v.extend(p_text::all(tier));
    v.extend(p_entropy::all(tier));
    v.extend(p_compression::all(tier));
    v.extend(p_stores::all(tier));
    // coverage audit: appended last (the shard assignment of the earlier parsers does not depend on the order, their names do not change)
    v.extend(p_audit::all(tier));
    // subject names are identities: they must be unique
    let mut names: Vec<&str> = v.iter().map(|p| p.name).collect();
    names.sort_unstable();
    for w in names.windows(2) {
        assert!(w[0] != w[1], "duplicate C15 parser name {}", w[0]);
    }
    v
}

/// Run one ENCODER call; a panicking encoder (not C15's subject) just yields no seed.
pub fn guard<T>(f: impl FnOnce() -> Option<T>) -> Option<T> {
    zverif::util::catch(f).ok().flatten()
}
