//! Coverage audit additions (see notes/C15.md "## Coverage audit").
//!
//! 1. `DataInput` over FILES: `MmapDataInput` (src/io/data_input.rs) and `MemoryMappedInput` (src/io/mmap.rs, three
//!    strategies by file size: buffered <= 4 KiB < mmap < 1 MiB <= hugepage) had no adapter at all; and no adapter
//!    fed a length read from the stream into `skip`.
//! 2. load-then-USE for the dict_zip loaders: a loader that accepts a file must survive the first use of what it
//!    loaded (`find_longest_match`, `find_all_matches`, `validate`, `put`/`get` through the PA-Zip compressor).  The
//!    earlier adapters stopped at `is_ok()`, and their only seed had an EMPTY DFA-cache pattern map.
//! 3. the serde-derived stores (`MemoryBlobStore`, `ZstdBlobStore<MemoryBlobStore>`, `ZeroLengthBlobStore`): load
//!    from JSON, then read every record.
use std::cell::RefCell;

use super::{forgive_bounded_prealloc, limit_address_space, with_file, SERDE_CAUTIOUS_CAP};
use crate::{payloads, seed, P};
use zverif::mutate::Seed;
use zverif::Tier;

use zipora::blob_store::{BlobStore, IterableBlobStore, MemoryBlobStore, ZeroLengthBlobStore, ZstdBlobStore};
use zipora::compression::dict_zip::{
    DfaCache, DfaCacheConfig, DictZipBlobStore, DictZipConfig, SuffixArrayDictionary, SuffixArrayDictionaryConfig,
};
use zipora::io::{DataInput, DataOutput, MemoryMappedInput, MmapDataInput, ReaderDataInput, SliceDataInput, VarInt, VecDataOutput};

// ---------------------------------------------------------------------------------------------
// 1. DataInput over files; lengths that come from the stream

/// 4200 bytes: above MemoryMappedInput's SMALL_FILE_THRESHOLD (4 KiB), so the unmutated seed and its long
/// truncations are read through the mmap strategy, the short truncations through the buffered strategy.
fn big_string() -> String {
    "0123456789abcdefghijklmnopqrstuvwxyz-+".repeat(111)[..4200].to_string()
}

/// Writer-made length-prefixed strings / byte vectors (1- and 2-byte varint prefixes), and the varints the
/// writer produces for the edge values: read as a LENGTH they are what a corrupt prefix looks like.
fn lp_seeds(big: bool) -> Vec<Seed> {
    lp_seeds_with(big, false)
}

/// `chunked` (both tiers since the engine thins out the truncations of seeds over 16 KiB): adds a 65 537-byte vector - `DataInput::read_vec` fills its buffer in 64 KiB chunks and
/// `ReaderDataInput::skip` reads in 8 KiB chunks; a shorter seed never completes a first chunk and starts another
fn lp_seeds_with(big: bool, chunked: bool) -> Vec<Seed> {
    let mut v = Vec::new();
    if chunked {
        let mut o = VecDataOutput::new();
        let data: Vec<u8> = (0..65_537u32).map(|i| (i % 251) as u8).collect();
        if o.write_length_prefixed_bytes(&data).is_ok() {
            v.push(seed("lpbytes[65537]", o.into_vec(), 0));
        }
    }
    let mut strings: Vec<String> = ["", "a", "hello world", "h\u{e9}llo \u{4e16}\u{754c}"].iter().map(|s| s.to_string()).collect();
    strings.push("0123456789abcdefghij".repeat(10));
    if big {
        strings.push(big_string());
    }
    for s in strings {
        let mut o = VecDataOutput::new();
        if o.write_length_prefixed_string(&s).is_ok() {
            v.push(seed(&format!("lpstr[{}]", s.len()), o.into_vec(), 0));
        }
    }
    let mut o = VecDataOutput::new();
    if o.write_length_prefixed_bytes(&[0xFFu8; 40]).is_ok() {
        v.push(seed("lpbytes[ff;40]", o.into_vec(), 0));
    }
    for x in [u32::MAX as u64, u64::MAX >> 1, u64::MAX - 16, u64::MAX] {
        let mut b = VarInt::encode(x);
        b.extend_from_slice(b"tail");
        v.push(seed(&format!("varint({x})+tail"), b, 0));
    }
    v
}

/// every way a length prefix in the stream reaches the input: string, bytes, and "skip this section"
fn lp_passes<I: DataInput>(mk: &dyn Fn() -> Option<I>) -> bool {
    let mut any = false;
    if let Some(mut i) = mk() {
        any |= i.read_length_prefixed_string().is_ok();
    }
    if let Some(mut i) = mk() {
        any |= i.read_length_prefixed_bytes().is_ok();
    }
    if let Some(mut i) = mk() {
        any |= match i.read_var_int() {
            Ok(n) => i.skip(n as usize).is_ok() && i.read_u8().is_ok(),
            Err(_) => false,
        };
    }
    any
}

fn raw_seeds(big: bool) -> Vec<Seed> {
    let mut v: Vec<Seed> = ["", "a", "hello world", "h\u{e9}llo \u{4e16}\u{754c}"].iter().map(|x| seed(&format!("raw[{}]", x.len()), x.as_bytes().to_vec(), x.len())).collect();
    if big {
        let s = big_string();
        v.push(seed("raw[4200]", s.into_bytes(), 4200));
    }
    v
}

/// the caller-supplied length `n` through every sized reader, then fixed-width reads across the end
fn sized_passes<I: DataInput>(mk: &dyn Fn() -> Option<I>, n: usize) -> bool {
    // the adapter's answer: "n > 0 bytes were there"; every other call only has to return
    let mut any = false;
    if let Some(mut i) = mk() {
        any |= n > 0 && i.read_vec(n).is_ok();
        std::hint::black_box(i.read_u8().is_ok());
    }
    if let Some(mut i) = mk() {
        std::hint::black_box(i.read_string(n).is_ok());
    }
    if let Some(mut i) = mk() {
        let mut buf = vec![0u8; n];
        std::hint::black_box(i.read_bytes(&mut buf).is_ok());
        std::hint::black_box(i.read_u16().is_ok());
    }
    if let Some(mut i) = mk() {
        std::hint::black_box(i.skip(n).is_ok());
        std::hint::black_box(i.read_u64().is_ok());
        std::hint::black_box(i.read_u32().is_ok());
        std::hint::black_box(i.read_var_int().is_ok());
        std::hint::black_box((i.position(), i.has_remaining()));
    }
    any
}

/// MemoryMappedInput's own (non-trait) readers, then the trait's sized readers; ONE open per case (every open is a
/// file open + mmap, and this subject has ~34 000 cases), `seek(0)` between the groups
fn mmi_passes(p: &std::path::Path, n: usize) -> bool {
    let Ok(mut i) = MemoryMappedInput::from_path(p) else { return false };
    // the adapter's answer: "n > 0 bytes were there"; every other call only has to return
    std::hint::black_box((i.len(), i.is_empty(), i.remaining(), i.strategy()));
    let any = n > 0 && i.read_slice(n).is_ok();
    std::hint::black_box(i.read_slice(1).is_ok());
    std::hint::black_box((i.position(), i.remaining()));
    if i.seek(0).is_err() {
        return any;
    }
    std::hint::black_box(i.read_slice_zero_copy(n).map(|s| s.len()).is_ok());
    std::hint::black_box(i.peek_slice(n).is_ok());
    std::hint::black_box(i.peek_slice_zero_copy(n).map(|s| s.len()).is_ok());
    std::hint::black_box(i.seek(n).is_ok());
    std::hint::black_box(i.peek_slice(1).is_ok());
    std::hint::black_box(i.read_slice(n).is_ok());
    std::hint::black_box(i.read_u64().is_ok());
    // the DataInput view: read_vec / read_string / read_bytes / skip with the same length, fixed-width reads across the end
    for pass in 0..4 {
        if i.seek(0).is_err() {
            break;
        }
        match pass {
            0 => {
                std::hint::black_box(i.read_vec(n).is_ok());
                std::hint::black_box(i.read_u8().is_ok());
            }
            1 => {
                std::hint::black_box(i.read_string(n).is_ok());
            }
            2 => {
                let mut buf = vec![0u8; n];
                std::hint::black_box(i.read_bytes(&mut buf).is_ok());
                std::hint::black_box(i.read_u16().is_ok());
            }
            _ => {
                std::hint::black_box(DataInput::skip(&mut i, n).is_ok());
                std::hint::black_box(i.read_u64().is_ok());
                std::hint::black_box(i.read_u32().is_ok());
                std::hint::black_box(i.read_var_int().is_ok());
                std::hint::black_box((DataInput::position(&i), i.has_remaining()));
            }
        }
    }
    any
}

// ---------------------------------------------------------------------------------------------
// 2. dict_zip: load, then use what was loaded

const FOX: &[u8] = b"the quick brown fox jumps over the lazy dog. the quick brown fox jumps again.";
/// repetitive training text: the BFS that fills the DFA cache keeps a pattern only if it occurs `min_frequency` times
const ABRA: &[u8] = b"abracadabra abracadabra abracadabra abracadabra";

fn sa_config(min_frequency: u32) -> SuffixArrayDictionaryConfig {
    SuffixArrayDictionaryConfig {
        min_frequency,
        max_bfs_depth: 3,
        max_cache_states: 64,
        use_memory_pool: false,
        dfa_cache_config: DfaCacheConfig::small_dictionary(64),
        ..Default::default()
    }
}

/// bincode `SerializableCache { pattern_map: HashMap<u32, PatternInfo{Vec<u8>, usize, u32, usize}>, config }`: sort the
/// entries (HashMap order differs from run to run)
fn canon_dfa_cache(b: &[u8]) -> Option<Vec<u8>> {
    let u64at = |o: usize| b.get(o..o + 8).map(|s| u64::from_le_bytes(s.try_into().unwrap()) as usize);
    let n = u64at(0)?;
    let mut off = 8;
    let mut entries: Vec<&[u8]> = Vec::new();
    for _ in 0..n {
        let plen = u64at(off + 4)?;
        let l = 4 + 8 + plen + 8 + 4 + 8;
        entries.push(b.get(off..off + l)?);
        off += l;
    }
    entries.sort_by_key(|e| u32::from_le_bytes([e[0], e[1], e[2], e[3]]));
    let mut out = b[..8].to_vec();
    for e in entries {
        out.extend_from_slice(e);
    }
    out.extend_from_slice(&b[off..]);
    (out.len() == b.len()).then_some(out)
}

/// bincode `SerializableDictionary { dictionary_text: Vec<u8>, dfa_cache_data: Vec<u8>, min, max }`
fn canon_sa_dict(b: &[u8]) -> Option<Vec<u8>> {
    let u64at = |o: usize| b.get(o..o + 8).map(|s| u64::from_le_bytes(s.try_into().unwrap()) as usize);
    let tl = u64at(0)?;
    let cl = u64at(8 + tl)?;
    let o = 8 + tl + 8;
    let mut out = b[..o].to_vec();
    out.extend_from_slice(&canon_dfa_cache(b.get(o..o + cl)?)?);
    out.extend_from_slice(&b[o + cl..]);
    Some(out)
}

fn sa_dicts() -> Vec<(&'static str, SuffixArrayDictionary)> {
    let mut v = Vec::new();
    for (label, text, freq) in [("fox,minfreq=4", FOX, 4u32), ("abra,minfreq=2", ABRA, 2), ("abra,minfreq=1", &ABRA[..12], 1)] {
        if let Some(d) = super::guard(|| SuffixArrayDictionary::new(text, sa_config(freq)).ok()) {
            v.push((label, d));
        }
    }
    v
}

fn sa_dict_use_seeds(_t: Tier) -> Vec<Seed> {
    sa_dicts().into_iter().filter_map(|(l, d)| d.serialize().ok().and_then(|b| canon_sa_dict(&b)).map(|b| seed(&format!("sa_dict({l})"), b, 0))).collect()
}

fn dfa_cache_use_seeds(_t: Tier) -> Vec<Seed> {
    sa_dict_use_seeds(_t)
        .into_iter()
        .filter_map(|s| {
            let b = &s.bytes;
            let tl = u64::from_le_bytes(b.get(0..8)?.try_into().ok()?) as usize;
            let cl = u64::from_le_bytes(b.get(8 + tl..16 + tl)?.try_into().ok()?) as usize;
            Some(seed(&s.label.replace("sa_dict", "dfa_cache"), b.get(16 + tl..16 + tl + cl)?.to_vec(), 0))
        })
        .collect()
}

fn probes() -> Vec<&'static [u8]> {
    vec![&b""[..], b"a", b"abra", b"abracadabra abracadabra", b"the quick brown fox", b"quick", b"zzzz", &[0u8, 0xFF, 0x80, 0x01]]
}

fn sa_dict_use(d: &mut SuffixArrayDictionary) {
    let mut acc = 0usize;
    acc += d.validate().is_ok() as usize;
    acc += d.dictionary_size() + d.dictionary_text().len() + d.data().len() + d.cache_states() + d.memory_usage() + d.size_in_bytes();
    std::hint::black_box((d.config().min_pattern_length, d.is_external_mode(), d.cache_hit_ratio()));
    for p in probes() {
        for pos in [0usize, 1, p.len()] {
            for max in [0usize, 1, 4, 256, usize::MAX] {
                if let Ok(Some(m)) = d.find_longest_match(p, pos, max) {
                    acc += m.length;
                }
            }
        }
        for max in [0usize, 1, 16] {
            if let Ok(ms) = d.find_all_matches(p, max) {
                acc += ms.len();
            }
        }
        let st = d.da_match_max_length(p);
        acc += st.match_count();
    }
    acc += d.optimize_cache().is_ok() as usize;
    std::hint::black_box((d.match_stats().total_searches, d.cache_stats().state_count, acc));
}

fn dfa_cache_use(c: &mut DfaCache) {
    let mut acc = 0usize;
    acc += c.validate().is_ok() as usize;
    acc += c.state_count() + c.memory_usage();
    for p in probes() {
        for max in [0usize, 1, 4, usize::MAX] {
            if let Ok(Some(m)) = c.find_longest_prefix(p, max) {
                acc += m.length + m.dict_position;
            }
        }
        for &b in p.iter().take(4) {
            acc += c.has_transition(0, b) as usize;
            acc += c.transition_state(0, b).unwrap_or(0) as usize;
        }
    }
    for s in [0u32, 1, u32::MAX] {
        acc += c.get_state(s).map(|s| s.suffix_hig as usize).unwrap_or(0);
        acc += c.get_zstr_length(s).unwrap_or(0);
    }
    acc += c.optimize(2).is_ok() as usize;
    acc += c.serialize().map(|b| b.len()).unwrap_or(0);
    std::hint::black_box((c.stats().state_count, acc));
}

fn dictzip_store_use(s: &mut DictZipBlobStore) {
    let mut acc = 0usize;
    acc += s.validate().is_ok() as usize;
    let mut ids = Vec::new();
    // one record the PA-Zip compressor handles (>= 32 bytes, matches in both training texts), one stored raw
    for p in [&b"the quick brown fox abracadabra abracadabra abracadabra"[..], b"x"] {
        if let Ok(id) = s.put(p) {
            ids.push(id);
        }
    }
    for &id in &ids {
        acc += s.contains(id) as usize;
        acc += s.size(id).ok().flatten().unwrap_or(0);
        acc += s.get(id).map(|d| d.len()).unwrap_or(0);
    }
    acc += s.len();
    acc += s.dictionary_stats().map(|m| m.total_searches as usize).unwrap_or(0);
    acc += s.detailed_stats().is_ok() as usize;
    std::hint::black_box(acc);
}

fn dictzip_config() -> DictZipConfig {
    // records of 32 bytes and more go through the PA-Zip compressor built from the loaded dictionary
    DictZipConfig::default().with_min_compression_size(32)
}

thread_local! {
    /// a store built from training samples, whose dictionary `load_dictionary` replaces
    static BASE_STORE: RefCell<Option<Vec<u8>>> = RefCell::new(None);
}

// ---------------------------------------------------------------------------------------------
// 3. serde-derived stores

fn mem_store(records: &[&[u8]]) -> MemoryBlobStore {
    let mut s = MemoryBlobStore::new();
    for r in records {
        let _ = s.put(r);
    }
    s
}

fn read_all<S: BlobStore>(s: &S, ids: impl Iterator<Item = u32>) {
    let mut acc = s.len();
    for id in ids.take(64).chain([0u32, 1, 2, u32::MAX]) {
        acc += s.contains(id) as usize;
        acc += s.size(id).ok().flatten().unwrap_or(0);
        acc += s.get(id).map(|d| d.len()).unwrap_or(0);
    }
    std::hint::black_box((acc, s.stats().blob_count, s.is_empty()));
}

/// JSON object keys are emitted in HashMap order: a store with ONE record per seed keeps the corpus stable
fn json_seed<T: serde::Serialize>(label: &str, v: &T) -> Option<Seed> {
    serde_json::to_vec(v).ok().map(|b| seed(label, b, 0))
}

// ---------------------------------------------------------------------------------------------
// 4. io::simd_parsing: hand-written two-stage JSON parser and CSV splitter (32-byte AVX2 / 16-byte SSE blocks)

fn json_docs() -> Vec<(&'static str, Vec<u8>)> {
    use serde_json::json;
    let docs = vec![
        ("null", json!(null)),
        ("number", json!(-12.5e3)),
        ("string(escapes)", json!("a\"b\\c\n\u{e9}\u{4e16}")),
        ("array[3]", json!([1, true, "x"])),
        ("object(31 bytes)", json!({"k": [1, 2, 3], "name": "zipora"})),
        ("object(>32 bytes)", json!({"key": "a string that crosses the first 32-byte block", "n": [0, -1, 2.5, 1e10]})),
        ("object(>64 bytes)", json!({"a": {"b": {"c": [[], {}, [[1]], "deep"]}}, "s": "quote \" and brace } inside a string, comma , colon :", "t": true, "f": false, "z": null})),
    ];
    docs.into_iter().filter_map(|(l, d)| serde_json::to_vec(&d).ok().map(|b| (l, b))).collect()
}

fn json_seeds(_t: Tier) -> Vec<Seed> {
    let mut v: Vec<Seed> = json_docs().into_iter().map(|(l, b)| seed(&format!("json({l})"), b, 0)).collect();
    v.push(seed("json(pretty, whitespace)", b"{\n  \"a\" : [ 1 ,\t2 ],\r\n  \"b\" : \"x\"\n}\n".to_vec(), 0));
    v
}

/// `[u16 le depth][document]`: the adapter wraps the document into `depth` arrays (a nesting depth is a length the input
/// chooses; the prefix keeps the seeds small and every depth up to 65 535 one window mutation away)
fn json_nested_seeds(_t: Tier) -> Vec<Seed> {
    let mut v = Vec::new();
    // (every mutant that sets the high byte of the prefix ends its child with a stack overflow, ~50 ms each: two seeds)
    for (depth, doc) in [(1u16, "null"), (3, "array[3]")] {
        for (l, b) in json_docs().into_iter().filter(|(l, _)| *l == doc) {
            let mut s = depth.to_le_bytes().to_vec();
            s.extend_from_slice(&b);
            v.push(seed(&format!("json(depth {depth}, {l})"), s, 0));
        }
    }
    v
}

fn json_use(v: &zipora::io::simd_parsing::JsonValue) -> usize {
    use zipora::io::simd_parsing::JsonValue as J;
    // iterative walk: the adapter must not be the one that overflows the stack
    let mut acc = 0usize;
    let mut stack = vec![v];
    while let Some(x) = stack.pop() {
        match x {
            J::Null => acc += 1,
            J::Boolean(b) => acc += *b as usize,
            J::Number(n) => acc += n.is_finite() as usize,
            J::String(s) => acc += s.len(),
            J::Array(a) => stack.extend(a.iter()),
            J::Object(o) => {
                for (k, v) in o {
                    acc += k.len();
                    stack.push(v);
                }
            }
        }
    }
    acc
}

fn csv_seeds(_t: Tier) -> Vec<Seed> {
    // first byte selects the delimiter
    let lines: [(&str, &[u8]); 7] = [
        ("empty", b""),
        ("a,b,c", b"a,b,c"),
        ("quoted", b"\"a,b\",\"c\"\"d\",e"),
        ("empty fields", b",,x,,"),
        (">32 bytes", b"field one,field two,\"field, three\",4,5,six six six"),
        (">64 bytes", b"0123456789,abcdefghijklmnopqrstuvwxyz,\"quoted \"\" with escape\",,last field after a long line\r\n"),
        ("newline inside", b"a,\"b\nc\",d\nnext,line"),
    ];
    let mut v = Vec::new();
    for (sel, d) in [(0u8, ','), (1, '\t'), (2, ';')] {
        for (l, line) in lines.iter() {
            if sel != 0 && !matches!(*l, "a,b,c" | "quoted") {
                continue;
            }
            let mut s = vec![sel];
            s.extend(line.iter().map(|&c| if c == b',' { d as u8 } else { c }));
            v.push(seed(&format!("csv[{d:?}]({l})"), s, 0));
        }
    }
    v
}

pub fn all(tier: Tier) -> Vec<P> {
    let th = tier == Tier::Thorough;
    vec![
        // ---- 1 ----
        P {
            name: "SliceDataInput: read_var_int -> skip(n) / length-prefixed string / bytes",
            seeds: |_| lp_seeds_with(false, true),
            parse: |b, _| lp_passes(&|| Some(SliceDataInput::new(b))),
            len_arg: false,
            small: true,
        },
        P {
            name: "ReaderDataInput: read_var_int -> skip(n) / length-prefixed string / bytes",
            seeds: |_| lp_seeds_with(false, true),
            parse: |b, _| lp_passes(&|| Some(ReaderDataInput::new(std::io::Cursor::new(b)))),
            len_arg: false,
            small: th,
        },
        P {
            name: "MmapDataInput::open: read_var_int -> skip(n) / length-prefixed string / bytes",
            seeds: |_| lp_seeds(false),
            parse: |b, _| with_file(b, |p| lp_passes(&|| MmapDataInput::open(p).ok())),
            len_arg: false,
            small: th,
        },
        P {
            name: "MmapDataInput::open: read_vec/read_string/read_bytes/skip(len) + fixed-width reads",
            seeds: |_| raw_seeds(false),
            parse: |b, n| {
                with_file(b, |p| {
                    let any = sized_passes(&|| MmapDataInput::open(p).ok(), n);
                    if let Ok(i) = MmapDataInput::open(p) {
                        std::hint::black_box((i.len(), i.is_empty(), i.remaining(), i.pos(), i.as_slice().len(), i.remaining_slice().len()));
                    }
                    any
                })
            },
            len_arg: true,
            small: false,
        },
        P {
            name: "zipora::io::from_file (MmapDataInput) + read to the end",
            seeds: |_| raw_seeds(false),
            parse: |b, _| {
                with_file(b, |p| match zipora::io::data_input::from_file(p) {
                    Ok(mut i) => {
                        let mut n = 0usize;
                        while i.read_u8().is_ok() && n <= b.len() {
                            n += 1;
                        }
                        // one element past the end through every fixed-width reader
                        let past = i.read_u8().is_ok() | i.read_u16().is_ok() | i.read_u32().is_ok() | i.read_u64().is_ok() | i.read_var_int().is_ok();
                        // answer: a non-empty file was delivered byte for byte and nothing beyond it
                        n > 0 && n == b.len() && !past
                    }
                    Err(_) => false,
                })
            },
            len_arg: false,
            small: false,
        },
        P {
            name: "MemoryMappedInput::from_path: read_var_int -> skip(n) / length-prefixed string / bytes",
            seeds: |_| lp_seeds(true),
            parse: |b, _| {
                with_file(b, |p| {
                    let any = lp_passes(&|| MemoryMappedInput::from_path(p).ok());
                    // the same length prefix through the type's own readers (zero-copy ones exist only behind the mmap strategy)
                    if let Ok(mut i) = MemoryMappedInput::from_path(p) {
                        if let Ok(n) = i.read_var_int() {
                            let n = n as usize;
                            let at = i.position();
                            std::hint::black_box(i.peek_slice(n).is_ok());
                            std::hint::black_box(i.peek_slice_zero_copy(n).map(|s| s.len()).is_ok());
                            std::hint::black_box(i.read_slice_zero_copy(n).map(|s| s.len()).is_ok());
                            std::hint::black_box(i.seek(at).is_ok());
                            std::hint::black_box(i.read_slice(n).is_ok());
                            std::hint::black_box(i.seek(n).is_ok());
                            std::hint::black_box(i.read_u8().is_ok());
                        }
                    }
                    any
                })
            },
            len_arg: false,
            small: th,
        },
        P {
            name: "MemoryMappedInput::from_path: read_slice/peek_slice/zero_copy/seek/skip/read_vec(len) + fixed-width reads",
            // (the 4 200-byte file x 7 length arguments x 4 200 truncations is thorough's; in quick the mmap strategy is reached by the subject above)
            seeds: |t| raw_seeds(t == Tier::Thorough),
            parse: |b, n| with_file(b, |p| mmi_passes(p, n)),
            len_arg: true,
            small: false,
        },
        P {
            name: "MmapZeroCopyReader::new: zc_read/zc_advance/zc_ensure(len) + Read to the end + ReaderDataInput over it",
            seeds: |_| {
                let mut v = raw_seeds(false);
                v.extend(lp_seeds(false).into_iter().filter(|s| s.label.starts_with("lpstr[11]") || s.label.starts_with("varint(18446744073709551615)")).map(|s| seed(&s.label, s.bytes, 11)));
                v
            },
            parse: |b, n| {
                use std::io::Read;
                use zipora::io::{MmapZeroCopyReader, ZeroCopyRead};
                with_file(b, |p| {
                    let mk = || std::fs::File::open(p).ok().and_then(|f| MmapZeroCopyReader::new(f).ok());
                    let mut any = false;
                    if let Some(mut r) = mk() {
                        std::hint::black_box((r.len(), r.is_empty(), r.position(), r.as_slice().len(), r.remaining_slice().len(), r.zc_available()));
                        // (the verdict of the adapter: "n bytes and one more were there"; the other calls only have to return)
                        any |= n > 0 && matches!(r.zc_read(n).map(|s| s.map(|s| s.len())), Ok(Some(_)));
                        std::hint::black_box(r.zc_ensure(n).is_ok());
                        any &= r.zc_advance(n).is_ok();
                        any &= matches!(r.zc_read(1), Ok(Some(_)));
                        std::hint::black_box(r.set_position(n).is_ok());
                        let mut rest = Vec::new();
                        std::hint::black_box(r.read_to_end(&mut rest).is_ok());
                        let mut one = [0u8; 1];
                        std::hint::black_box(matches!(r.read(&mut one), Ok(1)));
                        std::hint::black_box((r.remaining_slice().len(), r.zc_available()));
                    }
                    any |= lp_passes(&|| mk().map(ReaderDataInput::new));
                    any
                })
            },
            len_arg: true,
            small: false,
        },
        // ---- 2 ----
        P {
            name: "SuffixArrayDictionary::deserialize + find_longest_match/find_all_matches/validate",
            seeds: sa_dict_use_seeds,
            parse: |b, _| {
                limit_address_space();
                let r = SuffixArrayDictionary::deserialize(b);
                forgive_bounded_prealloc(SERDE_CAUTIOUS_CAP);
                match r {
                    Ok(mut d) => {
                        sa_dict_use(&mut d);
                        true
                    }
                    Err(_) => false,
                }
            },
            len_arg: false,
            small: false,
        },
        P {
            name: "DfaCache::deserialize + find_longest_prefix/validate/optimize/serialize",
            seeds: dfa_cache_use_seeds,
            parse: |b, _| {
                let r = DfaCache::deserialize(b);
                forgive_bounded_prealloc(SERDE_CAUTIOUS_CAP);
                match r {
                    Ok(mut c) => {
                        dfa_cache_use(&mut c);
                        true
                    }
                    Err(_) => false,
                }
            },
            len_arg: false,
            small: false,
        },
        P {
            name: "DictZipBlobStore::from_dictionary_file + put/get",
            // (every case builds a PA-Zip compressor and stores two records, ~0.4 ms: the dictionary with a DFA-cache pattern in quick)
            seeds: |t| sa_dict_use_seeds(t).into_iter().filter(|s| t == Tier::Thorough || s.label.contains("minfreq=2")).collect(),
            parse: |b, _| {
                limit_address_space();
                let r = with_file(b, |p| DictZipBlobStore::from_dictionary_file(p, dictzip_config()));
                forgive_bounded_prealloc(SERDE_CAUTIOUS_CAP);
                match r {
                    Ok(mut s) => {
                        dictzip_store_use(&mut s);
                        true
                    }
                    Err(_) => false,
                }
            },
            len_arg: false,
            small: false,
        },
        P {
            name: "DictZipBlobStore::load_dictionary + put/get",
            // (every case builds a store and loads into it, ~1 ms: one dictionary - the one with a DFA-cache pattern - in quick)
            seeds: |t| sa_dict_use_seeds(t).into_iter().filter(|s| t == Tier::Thorough || s.label.contains("minfreq=2")).collect(),
            parse: |b, _| {
                limit_address_space();
                // the store to load into: built once per process from the unmutated fox dictionary
                let base = BASE_STORE.with(|c| {
                    c.borrow_mut()
                        .get_or_insert_with(|| sa_dict_use_seeds(Tier::Quick).first().map(|s| s.bytes.clone()).unwrap_or_default())
                        .clone()
                });
                let Ok(mut s) = with_file(&base, |p| DictZipBlobStore::from_dictionary_file(p, dictzip_config())) else { return false };
                let r = with_file(b, |p| s.load_dictionary(p));
                forgive_bounded_prealloc(SERDE_CAUTIOUS_CAP);
                // (whether or not the new dictionary was accepted, the store must stay usable)
                dictzip_store_use(&mut s);
                r.is_ok()
            },
            len_arg: false,
            small: false,
        },
        // ---- 4 ----
        P {
            name: "simd_parsing::parse_json",
            seeds: json_seeds,
            parse: |b, _| match zipora::io::simd_parsing::parse_json(b) {
                Ok(v) => {
                    std::hint::black_box(json_use(&v));
                    // (the seeds nest a handful of levels and mutation cannot deepen them: dropping `v` recursively is safe here)
                    true
                }
                Err(_) => false,
            },
            len_arg: false,
            small: th,
        },
        P {
            name: "simd_parsing::parse_json[u16 nesting prefix]",
            seeds: json_nested_seeds,
            parse: |b, _| {
                if b.len() < 2 {
                    return false;
                }
                let depth = u16::from_le_bytes([b[0], b[1]]) as usize;
                let mut doc = vec![b'['; depth];
                doc.extend_from_slice(&b[2..]);
                doc.extend(std::iter::repeat(b']').take(depth));
                match zipora::io::simd_parsing::parse_json(&doc) {
                    Ok(v) => {
                        std::hint::black_box(json_use(&v));
                        // dismantle iteratively: dropping a deep JsonValue recursively is std's drop glue, not the parser
                        use zipora::io::simd_parsing::JsonValue as J;
                        let mut stack = vec![v];
                        while let Some(x) = stack.pop() {
                            match x {
                                J::Array(a) => stack.extend(a),
                                J::Object(o) => stack.extend(o.into_values()),
                                _ => {}
                            }
                        }
                        true
                    }
                    Err(_) => false,
                }
            },
            len_arg: false,
            small: false,
        },
        P {
            name: "simd_parsing::parse_csv_line + find_delimiter/find_newline/find_delimiters_bulk",
            seeds: csv_seeds,
            parse: |b, _| {
                use zipora::io::simd_parsing::{CsvConfig, CsvParser};
                let Some((&sel, line)) = b.split_first() else { return false };
                let d = [b',', b'\t', b';', b'"'][sel as usize % 4];
                let p = CsvParser::with_config(CsvConfig::with_delimiter(d));
                let mut acc = p.find_delimiter(line).unwrap_or(0) + p.find_newline(line).unwrap_or(0);
                for i in p.find_delimiters_bulk(line) {
                    acc += line[i] as usize; // every reported position must lie inside the line
                }
                std::hint::black_box(acc);
                let a = p.parse_line(line).map(|f| f.iter().map(|x| x.len()).sum::<usize>());
                let b2 = zipora::io::simd_parsing::parse_csv_line(line, d).map(|f| f.len());
                a.is_ok() | b2.is_ok()
            },
            len_arg: false,
            small: true,
        },
        // ---- 3 ----
        P {
            name: "serde_json::from_slice<MemoryBlobStore> + get every record",
            seeds: |_| {
                let mut v = Vec::new();
                v.extend(json_seed("memory_store(empty)", &mem_store(&[])));
                v.extend(json_seed("memory_store(1 record)", &mem_store(&[b"hello"])));
                v.extend(json_seed("memory_store(1 empty record)", &mem_store(&[b""])));
                v
            },
            parse: |b, _| match serde_json::from_slice::<MemoryBlobStore>(b) {
                Ok(s) => {
                    let ids: Vec<u32> = s.iter_ids().collect();
                    read_all(&s, ids.into_iter());
                    true
                }
                Err(_) => false,
            },
            len_arg: false,
            small: false,
        },
        P {
            name: "serde_json::from_slice<ZstdBlobStore<MemoryBlobStore>> + get every record",
            seeds: |_| {
                let mut v = Vec::new();
                for (l, p) in payloads() {
                    if !matches!(l, "empty" | "a" | "abab") {
                        continue;
                    }
                    let mut s = ZstdBlobStore::new(MemoryBlobStore::new(), 3);
                    if s.put(&p).is_ok() {
                        v.extend(json_seed(&format!("zstd_store({l})"), &s));
                    }
                }
                v
            },
            parse: |b, _| match serde_json::from_slice::<ZstdBlobStore<MemoryBlobStore>>(b) {
                Ok(s) => {
                    read_all(&s, 0..8u32);
                    true
                }
                Err(_) => false,
            },
            len_arg: false,
            small: false,
        },
        P {
            name: "serde_json::from_slice<ZeroLengthBlobStore> + get/iter_ids",
            seeds: |_| {
                let mut v = Vec::new();
                v.extend(json_seed("zero_length(0)", &ZeroLengthBlobStore::new()));
                v.extend(json_seed("zero_length(3)", &ZeroLengthBlobStore::finish(3)));
                v
            },
            parse: |b, _| match serde_json::from_slice::<ZeroLengthBlobStore>(b) {
                Ok(s) => {
                    read_all(&s, s.iter_ids());
                    std::hint::black_box(s.mem_size());
                    true
                }
                Err(_) => false,
            },
            len_arg: false,
            small: false,
        },
    ]
}
