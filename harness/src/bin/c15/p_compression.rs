//! compression: every `Compressor::decompress` of CompressorFactory, AdaptiveCompressor, SimdLz77Compressor
//! (inherent + X1..X8 wrappers + global), PaZipCompressor, PA-Zip match streams, the dict_zip FSE
//! wrappers and the DictZip dictionary loaders.
use std::cell::RefCell;

use super::{bytes_via_file, forgive_bounded_prealloc, limit_address_space, with_file, SERDE_CAUTIOUS_CAP};
use crate::{payloads, seed, P};
use zverif::mutate::Seed;
use zverif::Tier;

use zipora::compression::dict_zip::compression_types::{
    apply_fse_compression, fse_unzip_reference, remove_fse_compression, BitReader, FseCompressor, FseConfig as PaFseConfig,
};
use zipora::compression::dict_zip::{
    decode_match, decode_matches, encode_matches, DfaCache, DictZipBlobStore, DictZipConfig, DictionaryBuilder, DictionaryBuilderConfig, Match,
    PaZipCompressor, PaZipCompressorConfig, SuffixArrayDictionary,
};
use zipora::compression::simd_lz77::{
    decompress_with_simd_lz77, SimdLz77Compressor, SimdLz77CompressorX1, SimdLz77CompressorX2, SimdLz77CompressorX4, SimdLz77CompressorX8,
};
use zipora::compression::{AdaptiveCompressor, AdaptiveConfig, Algorithm, Compressor, CompressorFactory, PerformanceRequirements};
use zipora::memory::{SecureMemoryPool, SecurePoolConfig};

const TRAINING: &[u8] = b"the quick brown fox jumps over the lazy dog; the quick brown fox";

fn algo(a: u8) -> Algorithm {
    match a {
        0 => Algorithm::None,
        1 => Algorithm::Lz4,
        2 => Algorithm::Zstd(3),
        3 => Algorithm::Huffman,
        4 => Algorithm::Rans,
        5 => Algorithm::Dictionary,
        6 => Algorithm::SimdLz77,
        _ => Algorithm::Hybrid,
    }
}

thread_local! {
    static FACTORY: RefCell<Vec<Option<Box<dyn Compressor>>>> = RefCell::new((0..8).map(|_| None).collect());
}

fn with_compressor<R>(a: u8, f: impl FnOnce(&dyn Compressor) -> R) -> Option<R> {
    FACTORY.with(|c| {
        let mut c = c.borrow_mut();
        if c[a as usize].is_none() {
            c[a as usize] = CompressorFactory::create(algo(a), Some(TRAINING)).ok();
        }
        c[a as usize].as_ref().map(|b| f(b.as_ref()))
    })
}

/// seeds: the compressor's own output on every payload whose symbols the trained model can encode
fn factory_seeds<const A: u8>(t: Tier) -> Vec<Seed> {
    let mut v = Vec::new();
    for (label, p) in payloads() {
        // the rANS container starts with a 1 KiB frequency table; the ramp adds nothing there
        if t == Tier::Quick && matches!(label, "ramp" | "text128" | "zeros") {
            continue;
        }
        // Dictionary: "abab" is the payload whose encoding contains an LZ match token; every mutant of its
        // length field is a decompression bomb (covered by `DictionaryCompressor::decompress`): thorough only
        if t == Tier::Quick && A == 5 && label == "abab" {
            continue;
        }
        if let Some(Ok(b)) = with_compressor(A, |c| c.compress(&p)) {
            v.push(seed(&format!("{:?}({label})", algo(A)), b, 0));
        }
    }
    // models trained on the payload itself (the Huffman / rANS containers embed their model)
    if matches!(A, 3 | 4 | 7) {
        for (label, p) in payloads() {
            if p.is_empty() || (t == Tier::Quick && !matches!(label, "a" | "abab")) {
                continue;
            }
            if let Ok(c) = CompressorFactory::create(algo(A), Some(&p)) {
                if let Ok(b) = c.compress(&p) {
                    v.push(seed(&format!("{:?}[trained on {label}]({label})", algo(A)), b, 0));
                }
            }
        }
    }
    // (coverage audit) the rANS container starts with a 256 x u32 frequency table, and the engine mutates only the
    // first 96 bytes of a seed that long: a payload over the symbols 1..=3 puts the frequencies of the symbols the
    // stream actually USES inside that window (zeroed / maximised frequency of a symbol that is then decoded)
    if A == 4 {
        let p: &[u8] = &[1, 2, 3, 1, 2, 3, 1, 1, 2, 1];
        if let Ok(c) = CompressorFactory::create(algo(A), Some(p)) {
            if let Ok(b) = c.compress(p) {
                v.push(seed("Rans[trained on low symbols](low symbols)", b, 0));
            }
        }
    }
    v
}

fn factory_parse<const A: u8>(b: &[u8], _n: usize) -> bool {
    // (not for Zstd: its decompressor legitimately asks for a fixed 100 MiB buffer, see the findings)
    if matches!(A, 3 | 4 | 5 | 7) {
        limit_address_space();
    }
    with_compressor(A, |c| c.decompress(b).is_ok()).unwrap_or(false)
}

// AdaptiveCompressor: starts on Lz4 (feature disabled: compress/decompress always Err); forced algorithms
fn adaptive(a: u8) -> Option<AdaptiveCompressor> {
    let mut c = AdaptiveCompressor::new(AdaptiveConfig::default(), PerformanceRequirements::default()).ok()?;
    if a != 1 {
        c.set_algorithm(algo(a)).ok()?;
    }
    Some(c)
}

fn adaptive_seeds<const A: u8>(_t: Tier) -> Vec<Seed> {
    let mut v = Vec::new();
    let Some(c) = adaptive(A) else { return v };
    for (label, p) in payloads() {
        // (AdaptiveCompressor::compress panics on the empty input: encoder-side, not C15's subject)
        if let Some(b) = super::guard(|| Compressor::compress(&c, &p).ok()) {
            v.push(seed(&format!("adaptive[{:?}]({label})", algo(A)), b, 0));
        }
    }
    if v.is_empty() {
        // Lz4 is compiled out: feed the decompressor a zstd frame so that there is at least a seed
        if let Some(Ok(b)) = with_compressor(2, |c| c.compress(TRAINING)) {
            v.push(seed("adaptive[foreign zstd frame]", b, 0));
        }
    }
    v
}

fn adaptive_parse<const A: u8>(b: &[u8], _n: usize) -> bool {
    match adaptive(A) {
        Some(c) => Compressor::decompress(&c, b).is_ok(),
        None => false,
    }
}

// ---------------------------------------------------------------------------------------------
// SIMD LZ77 (inherent decompress: PA-Zip match stream -> reconstruct)

/// A corrupted PA-Zip bit stream re-synchronises on random tokens, one in ~30 of which is a Far3Long with
/// a 30-bit length: a large share of all mutants ends in an allocation failure.  Quick therefore uses two
/// short streams (the engine gives up on a subject after 200 dead children per shard).
fn lz77_seeds(t: Tier) -> Vec<Seed> {
    let mut v = Vec::new();
    if let Ok(mut c) = SimdLz77Compressor::new() {
        for (label, p) in payloads() {
            if t == Tier::Quick && !matches!(label, "empty" | "a") {
                continue;
            }
            // (the inherent method; the `Compressor` trait impl of this type is a length-prefixed stub)
            if let Ok(b) = SimdLz77Compressor::compress(&mut c, &p) {
                v.push(seed(&format!("lz77({label})"), b, 0));
            }
        }
    }
    // one stream holding every match type (the compressor above only emits a few of them)
    if let Some(b) = all_match_types_stream() {
        v.push(seed("lz77(all match types)", b, 0));
    }
    v
}

/// the X1/X2/X4/X8 wrappers and the global instance forward to SimdLz77Compressor::decompress
fn lz77_wrapper_seeds(t: Tier) -> Vec<Seed> {
    lz77_seeds(t).into_iter().filter(|s| t == Tier::Thorough || s.label == "lz77(a)").collect()
}

fn sample_matches() -> Vec<Match> {
    [
        Match::literal(32),
        Match::rle(0x41, 33),
        Match::near_short(9, 5),
        Match::far1_short(257, 33),
        Match::far2_short(300, 33),
        Match::far2_long(40, 64),
        Match::far2_long(40, 34 + 200),
        Match::far3_long(70, 35),
        Match::far3_long(70, 34 + 40000),
        Match::global(12345, 6),
        Match::literal(1),
    ]
    .into_iter()
    .filter_map(|m| m.ok())
    .collect()
}

fn all_match_types_stream() -> Option<Vec<u8>> {
    encode_matches(&sample_matches()).ok().map(|(b, _)| b)
}

fn match_stream_seeds(_t: Tier) -> Vec<Seed> {
    let mut v = Vec::new();
    if let Some(b) = all_match_types_stream() {
        v.push(seed("matches(all types)", b, 0));
    }
    for m in sample_matches() {
        if let Ok((b, _)) = encode_matches(std::slice::from_ref(&m)) {
            v.push(seed(&format!("match({m})"), b, 0));
        }
    }
    if let Ok((b, _)) = encode_matches(&[]) {
        v.push(seed("matches(none)", b, 0));
    }
    v
}

thread_local! {
    static LZ77: RefCell<Option<SimdLz77Compressor>> = RefCell::new(SimdLz77Compressor::new().ok());
    static LZ77_X1: RefCell<Option<SimdLz77CompressorX1>> = RefCell::new(SimdLz77CompressorX1::new().ok());
    static LZ77_X2: RefCell<Option<SimdLz77CompressorX2>> = RefCell::new(SimdLz77CompressorX2::new().ok());
    static LZ77_X4: RefCell<Option<SimdLz77CompressorX4>> = RefCell::new(SimdLz77CompressorX4::new().ok());
    static LZ77_X8: RefCell<Option<SimdLz77CompressorX8>> = RefCell::new(SimdLz77CompressorX8::new().ok());
}

// ---------------------------------------------------------------------------------------------
// PA-Zip

thread_local! {
    /// ONE small dictionary + compressor per process (building it is slow)
    static PAZIP: RefCell<Option<PaZipCompressor>> = RefCell::new(build_pazip());
}

fn pazip_dictionary() -> Option<SuffixArrayDictionary> {
    let training = b"the quick brown fox jumps over the lazy dog. the quick brown fox jumps again.";
    let cfg = DictionaryBuilderConfig { target_dict_size: 2048, max_dict_size: 4096, validate_result: true, ..Default::default() };
    DictionaryBuilder::with_config(cfg).build(training).ok()
}

fn build_pazip() -> Option<PaZipCompressor> {
    let pool = SecureMemoryPool::new(SecurePoolConfig::new(4096, 1024, 8)).ok()?;
    PaZipCompressor::new(pazip_dictionary()?, PaZipCompressorConfig::balanced(), pool).ok()
}

fn pazip_parse(b: &[u8], _n: usize) -> bool {
    limit_address_space();
    PAZIP.with(|c| match c.borrow_mut().as_mut() {
        Some(c) => {
            let mut out = Vec::new();
            c.decompress(b, &mut out).is_ok()
        }
        None => false,
    })
}

fn pazip_seeds(_t: Tier) -> Vec<Seed> {
    let mut v = Vec::new();
    PAZIP.with(|c| {
        if let Some(c) = c.borrow_mut().as_mut() {
            for (label, p) in payloads() {
                if p.len() > 130 {
                    continue;
                }
                let mut out = Vec::new();
                if c.compress(&p, &mut out).is_ok() {
                    v.push(seed(&format!("pazip({label})"), out, 0));
                }
            }
        }
    });
    // PaZipCompressor::decompress reads a byte-oriented format ([type][fields]) that differs from what
    // compress writes (C03's concern); a hand-written stream that it accepts exercises every branch:
    let mut s: Vec<u8> = Vec::new();
    s.extend_from_slice(&[0, 5, b'h', b'e', b'l', b'l', b'o']); // literal
    s.extend_from_slice(&[2, b'z', 4]); // RLE
    s.extend_from_slice(&[3, 2, 3]); // near short: distance 2, length 3
    s.extend_from_slice(&[4, 9, 20]); // far1 short: distance 9, length 20 (overlapping)
    s.extend_from_slice(&[5, 10, 0, 7]); // far2 short
    s.extend_from_slice(&[6, 12, 0, 40, 0]); // far2 long
    s.extend_from_slice(&[7, 20, 0, 0, 0, 50, 0, 0, 0]); // far3 long
    s.extend_from_slice(&[1, 4, 0, 9, 0]); // global: dictionary offset 4, length 9
    s.extend_from_slice(&[0, 1, b'!']);
    v.push(seed("pazip(hand-written: all 8 types)", s, 0));
    v
}

// ---------------------------------------------------------------------------------------------
// dict_zip FSE wrappers

fn pa_fse_seeds(t: Tier) -> Vec<Seed> {
    let cfg = PaFseConfig::for_pa_zip();
    let mut v = Vec::new();
    for (label, p) in payloads() {
        if label == "ramp" || (t == Tier::Quick && !matches!(label, "a" | "text128")) {
            continue;
        }
        if let Ok(b) = apply_fse_compression(&p, &cfg) {
            v.push(seed(&format!("pa_fse({label})"), b, p.len()));
        }
    }
    v
}

fn pa_fse_raw_seeds(t: Tier) -> Vec<Seed> {
    let mut v = Vec::new();
    for (label, p) in payloads() {
        if label == "ramp" || (t == Tier::Quick && !matches!(label, "a" | "text128")) {
            continue;
        }
        if let Ok(mut c) = FseCompressor::with_config(PaFseConfig::for_pa_zip()) {
            if let Ok(b) = c.compress(&p) {
                v.push(seed(&format!("pa_fse_raw({label})"), b, 0));
            }
        }
    }
    v
}

// ---------------------------------------------------------------------------------------------
// DictZip dictionary (bincode containers).  HashMap order inside the DFA cache is canonicalised.

/// bincode `SerializableCache { pattern_map: HashMap<u32, PatternInfo{Vec<u8>, usize, u32, usize}>, config }`
fn canon_dfa_cache(b: &[u8]) -> Vec<u8> {
    let u64at = |o: usize| u64::from_le_bytes(b[o..o + 8].try_into().unwrap()) as usize;
    let n = u64at(0);
    let mut off = 8;
    let mut entries: Vec<&[u8]> = Vec::new();
    for _ in 0..n {
        let plen = u64at(off + 4);
        let l = 4 + 8 + plen + 8 + 4 + 8;
        entries.push(&b[off..off + l]);
        off += l;
    }
    entries.sort_by_key(|e| u32::from_le_bytes([e[0], e[1], e[2], e[3]]));
    let mut out = b[..8].to_vec();
    for e in entries {
        out.extend_from_slice(e);
    }
    out.extend_from_slice(&b[off..]);
    assert_eq!(out.len(), b.len());
    out
}

/// bincode `SerializableDictionary { dictionary_text: Vec<u8>, dfa_cache_data: Vec<u8>, min, max }`
fn split_sa_dict(b: &[u8]) -> (usize, usize) {
    let u64at = |o: usize| u64::from_le_bytes(b[o..o + 8].try_into().unwrap()) as usize;
    let tl = u64at(0);
    let cache_off = 8 + tl + 8;
    let cl = u64at(8 + tl);
    (cache_off, cl)
}

fn canon_sa_dict(b: &[u8]) -> Vec<u8> {
    let (o, l) = split_sa_dict(b);
    let mut out = b[..o].to_vec();
    out.extend_from_slice(&canon_dfa_cache(&b[o..o + l]));
    out.extend_from_slice(&b[o + l..]);
    out
}

fn sa_dict_bytes() -> Option<Vec<u8>> {
    pazip_dictionary()?.serialize().ok().map(|b| canon_sa_dict(&b))
}

fn sa_dict_seeds(_t: Tier) -> Vec<Seed> {
    sa_dict_bytes().map(|b| vec![seed("sa_dict(fox)", b, 0)]).unwrap_or_default()
}

fn dfa_cache_seeds(_t: Tier) -> Vec<Seed> {
    sa_dict_bytes()
        .map(|b| {
            let (o, l) = split_sa_dict(&b);
            vec![seed("dfa_cache(fox)", b[o..o + l].to_vec(), 0)]
        })
        .unwrap_or_default()
}

fn sa_dict_file_seeds(_t: Tier) -> Vec<Seed> {
    // produced by the file writer, then canonicalised
    let Some(d) = pazip_dictionary() else { return vec![] };
    bytes_via_file(|p| d.save_to_file(p).is_ok()).map(|b| vec![seed("sa_dict_file(fox)", canon_sa_dict(&b), 0)]).unwrap_or_default()
}

pub fn all(tier: Tier) -> Vec<P> {
    let th = tier == Tier::Thorough;
    vec![
        P { name: "CompressorFactory[None]::decompress", seeds: factory_seeds::<0>, parse: factory_parse::<0>, len_arg: false, small: th },
        P { name: "CompressorFactory[Zstd(3)]::decompress", seeds: factory_seeds::<2>, parse: factory_parse::<2>, len_arg: false, small: true },
        P { name: "CompressorFactory[Huffman]::decompress", seeds: factory_seeds::<3>, parse: factory_parse::<3>, len_arg: false, small: th },
        P { name: "CompressorFactory[Rans]::decompress", seeds: factory_seeds::<4>, parse: factory_parse::<4>, len_arg: false, small: false },
        P { name: "CompressorFactory[Dictionary]::decompress", seeds: factory_seeds::<5>, parse: factory_parse::<5>, len_arg: false, small: th },
        P { name: "CompressorFactory[SimdLz77]::decompress", seeds: factory_seeds::<6>, parse: factory_parse::<6>, len_arg: false, small: th },
        P { name: "CompressorFactory[Hybrid]::decompress", seeds: factory_seeds::<7>, parse: factory_parse::<7>, len_arg: false, small: true },
        P { name: "AdaptiveCompressor[initial Lz4]::decompress", seeds: adaptive_seeds::<1>, parse: adaptive_parse::<1>, len_arg: false, small: false },
        P { name: "AdaptiveCompressor[Zstd(3)]::decompress", seeds: adaptive_seeds::<2>, parse: adaptive_parse::<2>, len_arg: false, small: false },
        P { name: "AdaptiveCompressor[SimdLz77]::decompress", seeds: adaptive_seeds::<6>, parse: adaptive_parse::<6>, len_arg: false, small: false },
        P {
            name: "SimdLz77Compressor::decompress",
            seeds: lz77_seeds,
            parse: |b, _| {
                limit_address_space();
                LZ77.with(|c| c.borrow_mut().as_mut().map(|c| SimdLz77Compressor::decompress(c, b).is_ok()).unwrap_or(false))
            },
            len_arg: false,
            small: true,
        },
        P {
            name: "SimdLz77CompressorX1::decompress",
            seeds: lz77_wrapper_seeds,
            parse: |b, _| {
                limit_address_space();
                LZ77_X1.with(|c| c.borrow_mut().as_mut().map(|c| c.decompress(b).is_ok()).unwrap_or(false))
            },
            len_arg: false,
            small: false,
        },
        P {
            name: "SimdLz77CompressorX2::decompress",
            seeds: lz77_wrapper_seeds,
            parse: |b, _| {
                limit_address_space();
                LZ77_X2.with(|c| c.borrow_mut().as_mut().map(|c| c.decompress(b).is_ok()).unwrap_or(false))
            },
            len_arg: false,
            small: false,
        },
        P {
            name: "SimdLz77CompressorX4::decompress",
            seeds: lz77_wrapper_seeds,
            parse: |b, _| {
                limit_address_space();
                LZ77_X4.with(|c| c.borrow_mut().as_mut().map(|c| c.decompress(b).is_ok()).unwrap_or(false))
            },
            len_arg: false,
            small: false,
        },
        P {
            name: "SimdLz77CompressorX8::decompress",
            seeds: lz77_wrapper_seeds,
            parse: |b, _| {
                limit_address_space();
                LZ77_X8.with(|c| c.borrow_mut().as_mut().map(|c| c.decompress(b).is_ok()).unwrap_or(false))
            },
            len_arg: false,
            small: false,
        },
        P {
            name: "decompress_with_simd_lz77",
            seeds: lz77_wrapper_seeds,
            parse: |b, _| {
                limit_address_space();
                decompress_with_simd_lz77(b).is_ok()
            },
            len_arg: false,
            small: false,
        },
        P { name: "PaZipCompressor::decompress", seeds: pazip_seeds, parse: pazip_parse, len_arg: false, small: true },
        P { name: "dict_zip::decode_matches", seeds: match_stream_seeds, parse: |b, _| decode_matches(b).is_ok(), len_arg: false, small: true },
        P {
            name: "dict_zip::decode_match",
            seeds: match_stream_seeds,
            parse: |b, _| {
                let mut r = BitReader::new(b);
                decode_match(&mut r).is_ok()
            },
            len_arg: false,
            small: true,
        },
        P {
            name: "dict_zip::remove_fse_compression",
            seeds: pa_fse_seeds,
            parse: |b, _| {
                limit_address_space();
                remove_fse_compression(b, &PaFseConfig::for_pa_zip()).is_ok()
            },
            len_arg: false,
            small: th,
        },
        P {
            name: "dict_zip::fse_unzip_reference(out=len)",
            seeds: pa_fse_seeds,
            parse: |b, n| {
                limit_address_space();
                let mut out = vec![0u8; n];
                fse_unzip_reference(b, &mut out).is_ok()
            },
            len_arg: true,
            small: false,
        },
        P {
            name: "dict_zip::FseCompressor::decompress",
            seeds: pa_fse_raw_seeds,
            parse: |b, _| {
                limit_address_space();
                match FseCompressor::with_config(PaFseConfig::for_pa_zip()) {
                    Ok(mut c) => c.decompress(b).is_ok(),
                    Err(_) => false,
                }
            },
            len_arg: false,
            small: th,
        },
        // bincode containers: see `forgive_bounded_prealloc`
        P {
            name: "dict_zip::DfaCache::deserialize",
            seeds: dfa_cache_seeds,
            parse: |b, _| {
                let ok = DfaCache::deserialize(b).is_ok();
                forgive_bounded_prealloc(SERDE_CAUTIOUS_CAP);
                ok
            },
            len_arg: false,
            small: th,
        },
        P {
            name: "SuffixArrayDictionary::deserialize",
            seeds: sa_dict_seeds,
            parse: |b, _| {
                let ok = SuffixArrayDictionary::deserialize(b).is_ok();
                forgive_bounded_prealloc(SERDE_CAUTIOUS_CAP);
                ok
            },
            len_arg: false,
            small: th,
        },
        P {
            name: "SuffixArrayDictionary::load_from_file",
            seeds: sa_dict_file_seeds,
            parse: |b, _| {
                let ok = with_file(b, |p| SuffixArrayDictionary::load_from_file(p).is_ok());
                forgive_bounded_prealloc(SERDE_CAUTIOUS_CAP);
                ok
            },
            len_arg: false,
            small: false,
        },
        P {
            name: "DictZipBlobStore::from_dictionary_file",
            seeds: sa_dict_file_seeds,
            parse: |b, _| {
                let ok = with_file(b, |p| DictZipBlobStore::from_dictionary_file(p, DictZipConfig::default()).is_ok());
                forgive_bounded_prealloc(SERDE_CAUTIOUS_CAP);
                ok
            },
            len_arg: false,
            small: false,
        },
    ]
}
