//! blob stores / vectors: ZipOffsetBlobStore loaders, ZReorderMap::open, MmapVec::open, PlainBlobStore on a
//! directory.  (SortedUintVec, NestLoudsTrieBlobStore and the other stores have no byte/ file loaders.)
use super::{bytes_via_file, with_file, Scratch};
use crate::{seed, P};
use zverif::mutate::Seed;
use zverif::Tier;

use zipora::blob_store::{BlobStore, PlainBlobStore, ZReorderMap, ZReorderMapBuilder, ZipOffsetBlobStore, ZipOffsetBlobStoreBuilder};
use zipora::memory::mmap_vec::{MmapVec, MmapVecConfig};

// ---------------------------------------------------------------------------------------------
// ZipOffsetBlobStore

fn zip_offset_seeds(_t: Tier) -> Vec<Seed> {
    let mut v = Vec::new();
    // what the writer produces today: ZipOffsetBlobStoreBuilder::finish() hands back an EMPTY store
    // (placeholder in zipora), so the encoder-made file is the 128-byte header with content_bytes = 0
    let mut b = match ZipOffsetBlobStoreBuilder::new() {
        Ok(b) => b,
        Err(_) => return v,
    };
    let _ = b.add_record(b"hello");
    let _ = b.add_record(b"the quick brown fox jumps over the lazy dog");
    let Ok(store) = b.finish() else { return v };
    let mut header = Vec::new();
    if store.save_to_writer(&mut header).is_err() {
        return v;
    }
    v.push(seed("zip_offset(writer output)", header.clone(), 0));
    // the same header with a non-trivial content section, following load_from_reader's own layout:
    // [128-byte header: content_bytes at 64..72][content][padding to 16]
    if header.len() >= 128 {
        for n in [40u64, 48] {
            let mut f = header[..128].to_vec();
            f[64..72].copy_from_slice(&n.to_le_bytes());
            f.extend((0..n).map(|i| i as u8));
            let pad = (16 - (n % 16)) % 16;
            f.extend(std::iter::repeat(0u8).take(pad as usize));
            v.push(seed(&format!("zip_offset(content_bytes={n})"), f, 0));
        }
    }
    // real stores: several records (short ones — shorter than a checksum trailer — in the middle and at the end), with and
    // without record checksums / compression, so that a header byte can claim a layout the content does not have
    use zipora::blob_store::ZipOffsetBlobStoreConfig;
    for (compress, checksum) in [(0u8, 0u8), (0, 2), (0, 3), (3, 2)] {
        let mut cfg = ZipOffsetBlobStoreConfig::default();
        cfg.compress_level = compress;
        cfg.checksum_level = checksum;
        let Ok(mut b) = ZipOffsetBlobStoreBuilder::with_config(cfg) else { continue };
        let mut ok = true;
        for r in [&b"abcdefgh"[..], b"xy", b"", b"0123456789", b"z"] {
            ok &= b.add_record(r).is_ok();
        }
        let Ok(store) = b.finish() else { continue };
        let mut bytes = Vec::new();
        if ok && store.save_to_writer(&mut bytes).is_ok() {
            v.push(seed(&format!("zip_offset(5 records, compress={compress}, checksum={checksum})"), bytes, 0));
        }
    }
    // (coverage audit) the three presets (they differ in the offset-index parameters the header carries), and a store whose
    // offset index spans more than one block of the index (64 / 128 offsets per block): 70 one-byte records, an empty one in the middle
    for (label, cfg) in [
        ("performance_optimized", ZipOffsetBlobStoreConfig::performance_optimized()),
        ("compression_optimized", ZipOffsetBlobStoreConfig::compression_optimized()),
        ("security_optimized", ZipOffsetBlobStoreConfig::security_optimized()),
    ] {
        let Ok(mut b) = ZipOffsetBlobStoreBuilder::with_config(cfg) else { continue };
        let mut ok = true;
        for r in [&b"abcdefgh"[..], b"", b"xy"] {
            ok &= b.add_record(r).is_ok();
        }
        let Ok(store) = b.finish() else { continue };
        let mut bytes = Vec::new();
        if ok && store.save_to_writer(&mut bytes).is_ok() {
            v.push(seed(&format!("zip_offset(3 records, preset {label})"), bytes, 0));
        }
    }
    for checksum in [0u8, 2] {
        let mut cfg = ZipOffsetBlobStoreConfig::default();
        cfg.compress_level = 0;
        cfg.checksum_level = checksum;
        let Ok(mut b) = ZipOffsetBlobStoreBuilder::with_config(cfg) else { continue };
        let mut ok = true;
        for i in 0..70u8 {
            ok &= if i == 35 { b.add_record(b"") } else { b.add_record(&[i]) }.is_ok();
        }
        let Ok(store) = b.finish() else { continue };
        let mut bytes = Vec::new();
        if ok && store.save_to_writer(&mut bytes).is_ok() {
            v.push(seed(&format!("zip_offset(70 records, checksum={checksum})"), bytes, 0));
        }
    }
    v
}

/// load, then read everything the store offers (a loader that accepts a file must not crash when the content is read)
fn zip_offset_read_all(s: &ZipOffsetBlobStore) {
    let n = s.len().min(80);
    let mut acc = 0usize;
    for id in 0..n as u32 + 1 {
        acc += s.contains(id) as usize;
        if let Ok(Some(sz)) = s.size(id) {
            acc += sz;
        }
        if let Ok(d) = s.get(id) {
            acc += d.len();
        }
        // (coverage audit) the CompressedBlobStore view reads the offset index on its own
        use zipora::blob_store::CompressedBlobStore;
        acc += s.compressed_size(id).ok().flatten().unwrap_or(0);
        acc += s.compression_ratio(id).ok().flatten().map(|r| r as usize).unwrap_or(0);
    }
    std::hint::black_box((s.stats().blob_count, s.memory_usage(), s.config().compress_level));
    std::hint::black_box(acc);
}

// ---------------------------------------------------------------------------------------------
// ZReorderMap

fn reorder_seeds(_t: Tier) -> Vec<Seed> {
    let mut v = Vec::new();
    let cases: [(&str, i64, Vec<usize>); 5] = [
        ("empty", 1, vec![]),
        ("single", 1, vec![7]),
        ("runs+", 1, vec![100, 101, 102, 200, 300, 301]),
        ("runs-", -1, vec![50, 49, 48, 10, 5, 4, 3, 2]),
        ("long run", 1, (1000..1300).collect()),
    ];
    for (label, sign, vals) in cases {
        let b = bytes_via_file(|p| {
            let Ok(mut b) = ZReorderMapBuilder::new(p, vals.len(), sign) else { return false };
            for &x in &vals {
                if b.push(x).is_err() {
                    return false;
                }
            }
            b.finish().is_ok()
        });
        if let Some(b) = b {
            v.push(seed(&format!("reorder({label})"), b, 0));
        }
    }
    v
}

fn reorder_parse(b: &[u8], _n: usize) -> bool {
    with_file(b, |p| match ZReorderMap::open(p) {
        Ok(mut m) => {
            // the entries are decoded lazily while iterating: walk a bounded prefix (the header may
            // legitimately announce up to usize::MAX/100 run-length-encoded elements)
            let mut acc = 0usize;
            std::hint::black_box((m.size(), m.eof(), m.len(), m.size_hint()));
            for x in m.by_ref().take(4096) {
                acc = acc.wrapping_add(x);
            }
            // (coverage audit) a second pass after rewind, interleaved with the non-panicking observers
            if m.rewind().is_ok() {
                let mut k = 0usize;
                while !m.eof() && k < 4096 {
                    acc = acc.wrapping_add(m.current()).wrapping_add(m.index());
                    if m.next().is_none() {
                        break;
                    }
                    k += 1;
                }
                std::hint::black_box((m.size(), m.eof(), m.len()));
            }
            std::hint::black_box(acc);
            true
        }
        Err(_) => false,
    })
}

// ---------------------------------------------------------------------------------------------
// MmapVec

fn mmap_vec_seeds<T: Copy + 'static + From<u8>>(_t: Tier) -> Vec<Seed> {
    let mut v = Vec::new();
    for (label, n) in [("empty", 0usize), ("five", 5), ("full", 8)] {
        let b = bytes_via_file(|p| {
            let cfg = MmapVecConfig { initial_capacity: 8, ..MmapVecConfig::default() };
            let Ok(mut mv) = MmapVec::<T>::create(p, cfg) else { return false };
            for i in 0..n {
                if mv.push(T::from(i as u8 + 1)).is_err() {
                    return false;
                }
            }
            mv.sync().is_ok()
        });
        if let Some(b) = b {
            v.push(seed(&format!("mmap_vec({label})"), b, 0));
        }
    }
    // (coverage audit) files the writer leaves after it GREW (capacity 8 -> 12: file extended, header rewritten), after
    // pop + shrink_to_fit (capacity == length), after resize + truncate (stale elements behind the length)
    let histories: [(&str, fn(&mut MmapVec<T>) -> bool); 3] = [
        ("grown to 12", |mv| (0..12u8).all(|i| mv.push(T::from(i + 1)).is_ok())),
        ("pop + shrink_to_fit", |mv| (0..5u8).all(|i| mv.push(T::from(i + 1)).is_ok()) && mv.pop().is_some() && mv.shrink_to_fit().is_ok()),
        ("resize 3 + truncate 2", |mv| mv.resize(3, T::from(9)).is_ok() && mv.truncate(2).is_ok()),
    ];
    for (label, f) in histories {
        // (sync_on_write and the other MmapVecConfig switches leave byte-identical files: one configuration)
        let b = bytes_via_file(|p| {
            let cfg = MmapVecConfig { initial_capacity: 8, ..MmapVecConfig::default() };
            let Ok(mut mv) = MmapVec::<T>::create(p, cfg) else { return false };
            f(&mut mv) && mv.sync().is_ok()
        });
        if let Some(b) = b {
            v.push(seed(&format!("mmap_vec({label})"), b, 0));
        }
    }
    v
}

fn mmap_vec_parse<T: Copy + 'static>(b: &[u8], _n: usize) -> bool {
    with_file(b, |p| match MmapVec::<T>::open(p, MmapVecConfig::read_only()) {
        Ok(mv) => {
            // a loaded vector must be readable through its safe accessors
            let n = mv.len();
            if n > 0 {
                std::hint::black_box(mv.get(0).copied());
                std::hint::black_box(mv.get(n - 1).copied());
                std::hint::black_box(mv.as_slice().last().copied());
            }
            // (coverage audit) every element through every read path, one past the end, and the derived figures
            let mut cnt = 0usize;
            for i in 0..n.min(4096) {
                cnt += mv.get(i).is_some() as usize;
            }
            cnt += (&mv).into_iter().take(4096).count();
            cnt += mv.as_slice().iter().take(4096).count();
            std::hint::black_box((cnt, mv.get(n).is_some(), mv.capacity(), mv.is_empty(), mv.memory_usage()));
            let st = mv.stats();
            std::hint::black_box((st.memory_efficiency(), st.wasted_space(), st.needs_compaction(0.5)));
            true
        }
        Err(_) => false,
    })
}

// ---------------------------------------------------------------------------------------------
// PlainBlobStore: what it parses are the *names* of the files in its directory

fn plain_seeds(_t: Tier) -> Vec<Seed> {
    // produced by the store itself: ids 1, 2, 3 ...; plus large ids a store reaches after many puts
    let mut v = Vec::new();
    let s = Scratch::new();
    let dir = s.dir.join("plain");
    if let Ok(mut st) = PlainBlobStore::create_new(&dir) {
        for _ in 0..3 {
            let _ = st.put(b"blob");
        }
        if let Ok(rd) = std::fs::read_dir(&dir) {
            let mut names: Vec<String> = rd.filter_map(|e| e.ok()).map(|e| e.file_name().to_string_lossy().into_owned()).collect();
            names.sort();
            for n in names {
                v.push(seed(&format!("plain(name={n})"), n.into_bytes(), 0));
            }
        }
    }
    v.push(seed("plain(name=4294967294)", b"4294967294".to_vec(), 0));
    v
}

fn plain_parse(b: &[u8], _n: usize) -> bool {
    // a directory entry name: no NUL, no '/', not "." / "..", at most 255 bytes
    if b.is_empty() || b.len() > 255 || b.contains(&0) || b.contains(&b'/') || b == b"." || b == b".." {
        return false;
    }
    use std::os::unix::ffi::OsStrExt;
    let s = Scratch::new();
    let dir = s.dir.join("plain");
    if std::fs::create_dir_all(&dir).is_err() {
        return false;
    }
    if std::fs::write(dir.join(std::ffi::OsStr::from_bytes(b)), b"blob").is_err() {
        return false;
    }
    match PlainBlobStore::new(&dir) {
        Ok(st) => {
            std::hint::black_box(st.len());
            // (coverage audit) read every record the scan found (one file per case), and the id the name parses to
            use zipora::blob_store::IterableBlobStore;
            let mut acc = 0usize;
            let named: Option<u32> = std::str::from_utf8(b).ok().and_then(|s| s.parse().ok());
            for id in st.iter_ids().take(4).chain(named) {
                acc += st.contains(id) as usize;
                acc += st.size(id).ok().flatten().unwrap_or(0);
                acc += st.get(id).map(|d| d.len()).unwrap_or(0);
            }
            std::hint::black_box((acc, st.stats().blob_count));
            true
        }
        Err(_) => false,
    }
}

pub fn all(tier: Tier) -> Vec<P> {
    // the file formats start with 16..128-byte headers: strings of <= 4 bytes only reach the "too short" exits
    let th = tier == Tier::Thorough;
    vec![
        P {
            name: "ZipOffsetBlobStore::load_from_reader + get every record",
            seeds: zip_offset_seeds,
            parse: |b, _| {
                let mut c = std::io::Cursor::new(b);
                match ZipOffsetBlobStore::load_from_reader(&mut c) {
                    Ok(s) => {
                        zip_offset_read_all(&s);
                        true
                    }
                    Err(_) => false,
                }
            },
            len_arg: false,
            small: th,
        },
        P {
            name: "ZipOffsetBlobStore::load_from_file + get every record",
            seeds: zip_offset_seeds,
            parse: |b, _| {
                with_file(b, |p| match ZipOffsetBlobStore::load_from_file(p) {
                    Ok(s) => {
                        zip_offset_read_all(&s);
                        true
                    }
                    Err(_) => false,
                })
            },
            len_arg: false,
            small: false,
        },
        P { name: "ZReorderMap::open + iterate", seeds: reorder_seeds, parse: reorder_parse, len_arg: false, small: th },
        P { name: "MmapVec<u32>::open + get", seeds: mmap_vec_seeds::<u32>, parse: mmap_vec_parse::<u32>, len_arg: false, small: th },
        P { name: "MmapVec<u64>::open + get", seeds: mmap_vec_seeds::<u64>, parse: mmap_vec_parse::<u64>, len_arg: false, small: false },
        P { name: "PlainBlobStore::new(directory with one entry)", seeds: plain_seeds, parse: plain_parse, len_arg: false, small: true },
    ]
}
