//! io: VarInt, VarIntEncoder strategies, SimdVarintCodec, ComplexSerialize, smart pointers, versioning,
//! DataInput over a slice / a reader.
use std::collections::{BTreeMap, BTreeSet, HashMap, HashSet};
use std::rc::Rc;
use std::sync::Arc;

use super::guard;
use crate::{seed, P};
use zverif::mutate::Seed;
use zverif::Tier;

use zipora::io::simd_encoding::varint::{decode_varint, decode_varint_batch, SimdVarintCodec};
use zipora::io::{
    ComplexSerialize, ComplexTypeConfig, ComplexTypeSerializer, DataInput, DataOutput, NestedSerialize, ReaderDataInput, SerializableType,
    SignedVarInt, SliceDataInput, SmartPtrSerializer, VarInt, VarIntEncoder, VarIntStrategy, VecDataOutput, Version, VersionConfig,
    VersionManager, VersionProxy, VersionedSerialize, VersionedSerializer,
};

// ---------------------------------------------------------------------------------------------
// VarInt

const U64_VALUES: [u64; 9] = [0, 1, 127, 128, 16383, 16384, u32::MAX as u64, u64::MAX >> 1, u64::MAX];
const I64_VALUES: [i64; 9] = [0, 1, -1, 63, -64, 64, i32::MIN as i64, i64::MAX, i64::MIN];
const U64_SEQ: [u64; 8] = [1, 2, 3, 127, 128, 16383, 16384, 1 << 40];
const U64_SORTED: [u64; 8] = [10, 12, 15, 20, 22, 25, 1000, 1 << 33];
const I64_SEQ: [i64; 7] = [-100, -1, 0, 1, 100, i64::MAX, i64::MIN];

fn varint_seeds(_t: Tier) -> Vec<Seed> {
    U64_VALUES.iter().map(|v| seed(&format!("varint({v})"), VarInt::encode(*v), 0)).collect()
}

fn varint_signed_seeds(_t: Tier) -> Vec<Seed> {
    I64_VALUES.iter().map(|v| seed(&format!("svarint({v})"), VarInt::encode_signed(*v), 0)).collect()
}

fn varint_multi_seeds(_t: Tier) -> Vec<Seed> {
    vec![seed("multi[0,1,300,MAX]", VarInt::encode_multiple([0u64, 1, 300, u64::MAX]), 0)]
}

// ---------------------------------------------------------------------------------------------
// VarIntEncoder: 7 strategies x {u64, i64, u64 sequence, i64 sequence}

fn enc(s: u8) -> VarIntEncoder {
    VarIntEncoder::new(match s {
        0 => VarIntStrategy::Leb128,
        1 => VarIntStrategy::Zigzag,
        2 => VarIntStrategy::Delta,
        3 => VarIntStrategy::GroupVarint,
        4 => VarIntStrategy::PrefixFree,
        5 => VarIntStrategy::Compact,
        _ => VarIntStrategy::Simd,
    })
}

fn vie_u64_seeds<const S: u8>(_t: Tier) -> Vec<Seed> {
    let e = enc(S);
    U64_VALUES.iter().filter_map(|v| guard(|| e.encode_u64(*v).ok()).map(|b| seed(&format!("u64({v})"), b, 0))).collect()
}
fn vie_i64_seeds<const S: u8>(_t: Tier) -> Vec<Seed> {
    let e = enc(S);
    I64_VALUES.iter().filter_map(|v| guard(|| e.encode_i64(*v).ok()).map(|b| seed(&format!("i64({v})"), b, 0))).collect()
}
fn vie_u64_seq_seeds<const S: u8>(_t: Tier) -> Vec<Seed> {
    let e = enc(S);
    let many: Vec<u64> = (0..40u64).map(|i| i * i * 37).collect();
    let cands: [(&str, &[u64]); 5] = [("[]", &[]), ("[42]", &[42]), ("mixed", &U64_SEQ), ("sorted", &U64_SORTED), ("forty", &many)];
    cands.iter().filter_map(|(l, v)| guard(|| e.encode_u64_sequence(v).ok()).map(|b| seed(&format!("u64seq({l})"), b, 0))).collect()
}
fn vie_i64_seq_seeds<const S: u8>(_t: Tier) -> Vec<Seed> {
    let e = enc(S);
    let many: Vec<i64> = (0..40i64).map(|i| (i - 20) * i * 37).collect();
    let cands: [(&str, &[i64]); 5] = [("[]", &[]), ("[-42]", &[-42]), ("mixed", &I64_SEQ), ("small", &[-3, -2, -1, 0, 1, 2, 3]), ("forty", &many)];
    cands.iter().filter_map(|(l, v)| guard(|| e.encode_i64_sequence(v).ok()).map(|b| seed(&format!("i64seq({l})"), b, 0))).collect()
}

macro_rules! vie {
    ($v:ident, $s:literal, $name:literal, $small:expr, $small_seq:expr) => {
        $v.push(P { name: concat!("VarIntEncoder[", $name, "]::decode_u64"), seeds: vie_u64_seeds::<$s>, parse: |b, _| enc($s).decode_u64(b).is_ok(), len_arg: false, small: $small });
        $v.push(P { name: concat!("VarIntEncoder[", $name, "]::decode_i64"), seeds: vie_i64_seeds::<$s>, parse: |b, _| enc($s).decode_i64(b).is_ok(), len_arg: false, small: $small });
        $v.push(P {
            name: concat!("VarIntEncoder[", $name, "]::decode_u64_sequence"),
            seeds: vie_u64_seq_seeds::<$s>,
            parse: |b, _| enc($s).decode_u64_sequence(b).is_ok(),
            len_arg: false,
            small: $small_seq,
        });
        $v.push(P {
            name: concat!("VarIntEncoder[", $name, "]::decode_i64_sequence"),
            seeds: vie_i64_seq_seeds::<$s>,
            parse: |b, _| enc($s).decode_i64_sequence(b).is_ok(),
            len_arg: false,
            small: $small_seq,
        });
    };
}

// ---------------------------------------------------------------------------------------------
// SimdVarintCodec

fn simd_single_seeds(_t: Tier) -> Vec<Seed> {
    let c = SimdVarintCodec::new();
    U64_VALUES.iter().filter_map(|v| c.encode_single(*v).ok().map(|b| seed(&format!("single({v})"), b, 0))).collect()
}

fn simd_batch_seeds(_t: Tier) -> Vec<Seed> {
    let c = SimdVarintCodec::new();
    let many: Vec<u64> = (0..40u64).map(|i| i * i * i * 1_000_003).collect();
    let cands: [(&str, &[u64]); 4] = [("[7]", &[7]), ("mixed", &U64_SEQ), ("edges", &U64_VALUES), ("forty", &many)];
    cands.iter().filter_map(|(l, v)| c.encode_batch(v).ok().map(|b| seed(&format!("batch({l})"), b, v.len()))).collect()
}

// ---------------------------------------------------------------------------------------------
// ComplexSerialize

fn cts(meta: bool) -> ComplexTypeSerializer {
    ComplexTypeSerializer::new(if meta { ComplexTypeConfig::new() } else { ComplexTypeConfig::fast() })
}

type Tup3 = (u32, String, bool);
type TupNest = (Vec<String>, Option<u64>, Vec<Vec<u8>>);

fn s(x: &str) -> String {
    x.to_string()
}
fn long_string() -> String {
    // 200 bytes: its varint length prefix is two bytes (non-trivial length field)
    "0123456789abcdefghij".repeat(10)
}

fn complex_seeds<T: ComplexSerialize>(values: Vec<(&'static str, T)>, meta: bool) -> Vec<Seed> {
    values.iter().filter_map(|(l, v)| cts(meta).serialize_to_bytes(v).ok().map(|b| seed(l, b, 0))).collect()
}

fn tup3_values() -> Vec<(&'static str, Tup3)> {
    vec![("(42,hello,true)", (42, s("hello"), true)), ("(0,'',false)", (0, s(""), false)), ("(MAX,long,true)", (u32::MAX, long_string(), true))]
}
fn tupnest_values() -> Vec<(&'static str, TupNest)> {
    vec![
        ("nest(empty)", (vec![], None, vec![])),
        ("nest(full)", (vec![s("a"), s("bc"), long_string()], Some(u64::MAX), vec![vec![], vec![1, 2, 3], vec![0xFF; 40]])),
    ]
}
fn arr_values() -> Vec<(&'static str, [u32; 4])> {
    vec![("[1,2,3,4]", [1, 2, 3, 4]), ("[MAX;4]", [u32::MAX; 4])]
}
fn opt_values() -> Vec<(&'static str, Option<String>)> {
    vec![("None", None), ("Some(hi)", Some(s("hi"))), ("Some(long)", Some(long_string()))]
}
fn res_values() -> Vec<(&'static str, Result<u32, String>)> {
    vec![("Ok(7)", Ok(7)), ("Err(boom)", Err(s("boom")))]
}
fn hm_values() -> Vec<(&'static str, HashMap<String, u32>)> {
    let mut one = HashMap::new();
    one.insert(s("key"), 7u32);
    vec![("{}", HashMap::new()), ("{key:7}", one)]
}
fn hs_values() -> Vec<(&'static str, HashSet<u32>)> {
    let mut one = HashSet::new();
    one.insert(9u32);
    vec![("{}", HashSet::new()), ("{9}", one)]
}
fn bm_values() -> Vec<(&'static str, BTreeMap<u32, String>)> {
    let mut m = BTreeMap::new();
    m.insert(1u32, s("one"));
    m.insert(2, s("two"));
    m.insert(300, long_string());
    vec![("{}", BTreeMap::new()), ("{1,2,300}", m)]
}
fn bs_values() -> Vec<(&'static str, BTreeSet<String>)> {
    let mut m = BTreeSet::new();
    m.insert(s("a"));
    m.insert(s("bb"));
    m.insert(s("ccc"));
    vec![("{}", BTreeSet::new()), ("{a,bb,ccc}", m)]
}

macro_rules! complex {
    ($v:ident, $name:literal, $t:ty, $vals:ident, $small_meta:expr, $small_data:expr) => {
        $v.push(P {
            name: concat!("ComplexTypeSerializer::deserialize_from_bytes<", $name, ">[metadata]"),
            seeds: |_| complex_seeds::<$t>($vals(), true),
            parse: |b, _| cts(true).deserialize_from_bytes::<$t>(b).is_ok(),
            len_arg: false,
            small: $small_meta,
        });
        $v.push(P {
            name: concat!("ComplexTypeSerializer::deserialize_from_bytes<", $name, ">[data only]"),
            seeds: |_| complex_seeds::<$t>($vals(), false),
            parse: |b, _| cts(false).deserialize_from_bytes::<$t>(b).is_ok(),
            len_arg: false,
            small: $small_data,
        });
    };
}

fn batch_seeds(meta: bool) -> Vec<Seed> {
    let vals: Vec<Tup3> = tup3_values().into_iter().map(|(_, v)| v).collect();
    let mut out = Vec::new();
    for (l, v) in [("batch[]", &vals[..0]), ("batch[1]", &vals[..1]), ("batch[3]", &vals[..])] {
        if let Ok(b) = cts(meta).serialize_batch(v) {
            out.push(seed(l, b, 0));
        }
    }
    out
}

fn nested_seeds(_t: Tier) -> Vec<Seed> {
    tupnest_values()
        .iter()
        .filter_map(|(l, v)| {
            let mut o = VecDataOutput::new();
            v.serialize_nested(&mut o, 0).ok().map(|_| seed(l, o.into_vec(), 0))
        })
        .collect()
}

// ---------------------------------------------------------------------------------------------
// smart pointers / SerializableType

fn sps() -> SmartPtrSerializer {
    SmartPtrSerializer::default()
}

fn ser_seeds<T: SerializableType>(values: Vec<(&'static str, T)>) -> Vec<Seed> {
    values
        .iter()
        .filter_map(|(l, v)| {
            let mut o = VecDataOutput::new();
            v.serialize(&mut o).ok().map(|_| seed(l, o.into_vec(), 0))
        })
        .collect()
}

fn de<T: SerializableType>(b: &[u8]) -> bool {
    let mut i = SliceDataInput::new(b);
    T::deserialize(&mut i).is_ok()
}

// ---------------------------------------------------------------------------------------------
// versioning

#[derive(Debug, PartialEq)]
struct Rec {
    id: u32,
    name: String,
    tags: Vec<String>,
}

impl VersionedSerialize for Rec {
    fn current_version() -> Version {
        Version::new(1, 2, 0)
    }
    fn serialize_with_manager<O: DataOutput>(&self, m: &mut VersionManager, o: &mut O) -> zipora::error::Result<()> {
        o.write_u32(self.id)?;
        m.serialize_field("name", &self.name, o)?;
        m.serialize_field("tags", &self.tags, o)
    }
    fn deserialize_with_manager<I: DataInput>(m: &mut VersionManager, i: &mut I) -> zipora::error::Result<Self> {
        let id = i.read_u32()?;
        let name = m.deserialize_field::<String, _>("name", i)?.unwrap_or_default();
        let tags = m.deserialize_field::<Vec<String>, _>("tags", i)?.unwrap_or_default();
        Ok(Rec { id, name, tags })
    }
}

fn vs(cfg: u8) -> VersionedSerializer {
    VersionedSerializer::new(match cfg {
        0 => VersionConfig::new(),
        1 => VersionConfig::strict(),
        2 => VersionConfig::flexible(),
        _ => VersionConfig::development(),
    })
}

fn rec_values() -> Vec<(&'static str, Rec)> {
    vec![
        ("rec(small)", Rec { id: 7, name: s("n"), tags: vec![] }),
        ("rec(full)", Rec { id: u32::MAX, name: long_string(), tags: vec![s("x"), s("yy"), s("zzz")] }),
    ]
}

fn versioned_seeds(_t: Tier) -> Vec<Seed> {
    rec_values().iter().filter_map(|(l, v)| vs(0).serialize_to_bytes(v).ok().map(|b| seed(l, b, 0))).collect()
}

fn versioned_direct_seeds(_t: Tier) -> Vec<Seed> {
    // VersionedSerialize::deserialize_versioned reads [version u32][fields].  serialize_versioned writes the
    // version itself since zipora commit "serialize_versioned writes the header"; on older trees it did not,
    // so fall back to writing it here when the plain output is not accepted.
    rec_values()
        .iter()
        .filter_map(|(l, v)| {
            let mut plain = VecDataOutput::new();
            v.serialize_versioned(&mut plain).ok()?;
            let plain = plain.into_vec();
            if Rec::deserialize_versioned(&mut SliceDataInput::new(&plain)).map(|r| r == *v).unwrap_or(false) {
                return Some(seed(l, plain, 0));
            }
            let mut o = VecDataOutput::new();
            Rec::current_version().serialize(&mut o).ok()?;
            let mut b = o.into_vec();
            b.extend_from_slice(&plain);
            Some(seed(l, b, 0))
        })
        .collect()
}

// ---------------------------------------------------------------------------------------------
// DataInput

fn lp_string_seeds(_t: Tier) -> Vec<Seed> {
    ["", "a", "hello world", "h\u{e9}llo \u{4e16}\u{754c}"]
        .iter()
        .map(|x| x.to_string())
        .chain(std::iter::once(long_string()))
        .filter_map(|x| {
            let mut o = VecDataOutput::new();
            o.write_length_prefixed_string(&x).ok().map(|_| seed(&format!("lpstr[{}]", x.len()), o.into_vec(), 0))
        })
        .collect()
}

fn lp_bytes_seeds(_t: Tier) -> Vec<Seed> {
    crate::payloads()
        .into_iter()
        .filter_map(|(l, p)| {
            let mut o = VecDataOutput::new();
            o.write_length_prefixed_bytes(&p).ok().map(|_| seed(&format!("lpbytes({l})"), o.into_vec(), 0))
        })
        .collect()
}

fn raw_string_seeds(_t: Tier) -> Vec<Seed> {
    ["", "a", "hello world", "h\u{e9}llo \u{4e16}\u{754c}"].iter().map(|x| seed(&format!("str[{}]", x.len()), x.as_bytes().to_vec(), x.len())).collect()
}

fn fixed_ints_seeds(_t: Tier) -> Vec<Seed> {
    let mut o = VecDataOutput::new();
    let _ = o.write_u8(0xAB);
    let _ = o.write_u16(0xBEEF);
    let _ = o.write_u32(0xDEADBEEF);
    let _ = o.write_u64(u64::MAX - 1);
    let _ = o.write_var_int(300);
    let _ = o.write_u8(0); // the byte that `skip(1)` steps over
    vec![seed("u8,u16,u32,u64,varint", o.into_vec(), 0)]
}

fn read_ints<I: DataInput>(i: &mut I) -> bool {
    i.read_u8().is_ok() && i.read_u16().is_ok() && i.read_u32().is_ok() && i.read_u64().is_ok() && i.read_var_int().is_ok() && i.skip(1).is_ok()
}

pub fn all(tier: Tier) -> Vec<P> {
    let th = tier == Tier::Thorough;
    let mut v: Vec<P> = vec![
        P { name: "VarInt::decode", seeds: varint_seeds, parse: |b, _| VarInt::decode(b).is_ok(), len_arg: false, small: true },
        P { name: "VarInt::decode_multiple", seeds: varint_multi_seeds, parse: |b, _| VarInt::decode_multiple(b).is_ok(), len_arg: false, small: true },
        P { name: "VarInt::decode_signed", seeds: varint_signed_seeds, parse: |b, _| VarInt::decode_signed(b).is_ok(), len_arg: false, small: true },
        P {
            name: "VarInt::read_from(SliceDataInput)",
            seeds: varint_seeds,
            parse: |b, _| {
                let mut i = SliceDataInput::new(b);
                VarInt::read_from(&mut i).is_ok()
            },
            len_arg: false,
            small: true,
        },
    ];
    vie!(v, 0, "Leb128", true, true);
    // (Zigzag::decode_u64*, Delta::decode_u64/i64 are unconditional `Err`: no encoder output exists, the short strings are their whole corpus)
    vie!(v, 1, "Zigzag", true, true);
    vie!(v, 2, "Delta", true, true);
    vie!(v, 3, "GroupVarint", true, true);
    vie!(v, 4, "PrefixFree", true, true);
    // Compact and Simd delegate to the Leb128 / Zigzag functions
    vie!(v, 5, "Compact", th, th);
    vie!(v, 6, "Simd", th, th);

    v.push(P { name: "SimdVarintCodec::decode_single", seeds: simd_single_seeds, parse: |b, _| SimdVarintCodec::new().decode_single(b).is_ok(), len_arg: false, small: true });
    v.push(P { name: "SimdVarintCodec::decode_batch", seeds: simd_batch_seeds, parse: |b, n| SimdVarintCodec::new().decode_batch(b, n).is_ok(), len_arg: true, small: th });
    v.push(P { name: "simd_encoding::decode_varint", seeds: simd_single_seeds, parse: |b, _| decode_varint(b).is_ok(), len_arg: false, small: th });
    v.push(P { name: "simd_encoding::decode_varint_batch", seeds: simd_batch_seeds, parse: |b, n| decode_varint_batch(b, n).is_ok(), len_arg: true, small: th });

    // `small`: a data-only collection starts with a u32 element count, so a large share of the 4-byte strings
    // aborts on `with_capacity(count)`; that defect is reached through the seeds, not 3000 times over
    complex!(v, "(u32,String,bool)", Tup3, tup3_values, true, true);
    complex!(v, "(Vec<String>,Option<u64>,Vec<Vec<u8>>)", TupNest, tupnest_values, th, false);
    complex!(v, "[u32;4]", [u32; 4], arr_values, th, th);
    complex!(v, "Option<String>", Option<String>, opt_values, th, th);
    complex!(v, "Result<u32,String>", Result<u32, String>, res_values, th, th);
    complex!(v, "HashMap<String,u32>", HashMap<String, u32>, hm_values, th, false);
    complex!(v, "HashSet<u32>", HashSet<u32>, hs_values, th, false);
    complex!(v, "BTreeMap<u32,String>", BTreeMap<u32, String>, bm_values, th, false);
    complex!(v, "BTreeSet<String>", BTreeSet<String>, bs_values, th, false);
    v.push(P {
        name: "ComplexTypeSerializer::deserialize_batch<(u32,String,bool)>[metadata]",
        seeds: |_| batch_seeds(true),
        parse: |b, _| cts(true).deserialize_batch::<Tup3>(b).is_ok(),
        len_arg: false,
        small: false,
    });
    v.push(P {
        name: "ComplexTypeSerializer::deserialize_batch<(u32,String,bool)>[data only]",
        seeds: |_| batch_seeds(false),
        parse: |b, _| cts(false).deserialize_batch::<Tup3>(b).is_ok(),
        len_arg: false,
        small: false,
    });
    v.push(P {
        name: "NestedSerialize::deserialize_nested<(Vec<String>,Option<u64>,Vec<Vec<u8>>)>",
        seeds: nested_seeds,
        parse: |b, _| {
            let mut i = SliceDataInput::new(b);
            <TupNest as NestedSerialize>::deserialize_nested(&mut i, 0).is_ok()
        },
        len_arg: false,
        small: false,
    });

    // smart pointers through SmartPtrSerializer (markers + ids) ...
    v.push(P {
        name: "SmartPtrSerializer::deserialize_from_bytes<Box<String>>",
        seeds: |_| [s("hi"), long_string()].iter().filter_map(|x| sps().serialize_to_bytes::<String, Box<String>>(&Box::new(x.clone())).ok().map(|b| seed(&format!("box[{}]", x.len()), b, 0))).collect(),
        parse: |b, _| sps().deserialize_from_bytes::<String, Box<String>>(b).is_ok(),
        len_arg: false,
        small: th,
    });
    v.push(P {
        name: "SmartPtrSerializer::deserialize_from_bytes<Option<Box<u32>>>",
        seeds: |_| [None, Some(Box::new(7u32))].iter().filter_map(|x| sps().serialize_to_bytes::<u32, Option<Box<u32>>>(x).ok().map(|b| seed(&format!("optbox({})", x.is_some()), b, 0))).collect(),
        parse: |b, _| sps().deserialize_from_bytes::<u32, Option<Box<u32>>>(b).is_ok(),
        len_arg: false,
        small: th,
    });
    v.push(P {
        name: "SmartPtrSerializer::deserialize_from_bytes<Rc<String>>",
        seeds: |_| [s("rc"), long_string()].iter().filter_map(|x| sps().serialize_to_bytes::<String, Rc<String>>(&Rc::new(x.clone())).ok().map(|b| seed(&format!("rc[{}]", x.len()), b, 0))).collect(),
        parse: |b, _| sps().deserialize_from_bytes::<String, Rc<String>>(b).is_ok(),
        len_arg: false,
        small: th,
    });
    v.push(P {
        name: "SmartPtrSerializer::deserialize_from_bytes<Arc<Vec<u32>>>",
        seeds: |_| [vec![], vec![1u32, 2, 3], (0..40u32).collect()].iter().filter_map(|x| sps().serialize_to_bytes::<Vec<u32>, Arc<Vec<u32>>>(&Arc::new(x.clone())).ok().map(|b| seed(&format!("arc[{}]", x.len()), b, 0))).collect(),
        parse: |b, _| sps().deserialize_from_bytes::<Vec<u32>, Arc<Vec<u32>>>(b).is_ok(),
        len_arg: false,
        small: th,
    });
    v.push(P {
        name: "SmartPtrSerializer::deserialize_from_bytes<rc::Weak<String>>",
        seeds: |_| {
            let strong = Rc::new(s("weak target"));
            let live = Rc::downgrade(&strong);
            let dead: std::rc::Weak<String> = std::rc::Weak::new();
            [("live", live), ("dead", dead)].iter().filter_map(|(l, x)| sps().serialize_to_bytes::<String, std::rc::Weak<String>>(x).ok().map(|b| seed(&format!("rcweak({l})"), b, 0))).collect()
        },
        parse: |b, _| sps().deserialize_from_bytes::<String, std::rc::Weak<String>>(b).is_ok(),
        len_arg: false,
        small: th,
    });
    v.push(P {
        name: "SmartPtrSerializer::deserialize_from_bytes<sync::Weak<String>>",
        seeds: |_| {
            let strong = Arc::new(s("weak target"));
            let live = Arc::downgrade(&strong);
            let dead: std::sync::Weak<String> = std::sync::Weak::new();
            [("live", live), ("dead", dead)].iter().filter_map(|(l, x)| sps().serialize_to_bytes::<String, std::sync::Weak<String>>(x).ok().map(|b| seed(&format!("arcweak({l})"), b, 0))).collect()
        },
        parse: |b, _| sps().deserialize_from_bytes::<String, std::sync::Weak<String>>(b).is_ok(),
        len_arg: false,
        small: th,
    });
    // ... and the plain SerializableType deserialisers
    v.push(P { name: "SerializableType::deserialize<String>", seeds: |_| ser_seeds(vec![("''", s("")), ("hi", s("hi")), ("long", long_string())]), parse: |b, _| de::<String>(b), len_arg: false, small: true });
    v.push(P {
        name: "SerializableType::deserialize<Vec<String>>",
        seeds: |_| ser_seeds(vec![("[]", vec![]), ("[a,bc]", vec![s("a"), s("bc")]), ("[long;2]", vec![long_string(), long_string()])]),
        parse: |b, _| de::<Vec<String>>(b),
        len_arg: false,
        small: false,
    });
    v.push(P {
        name: "SerializableType::deserialize<Vec<Vec<u8>>>",
        seeds: |_| ser_seeds(vec![("[]", vec![]), ("[[],[1,2,3]]", vec![vec![], vec![1u8, 2, 3]]), ("[[ff;300]]", vec![vec![0xFFu8; 300]])]),
        parse: |b, _| de::<Vec<Vec<u8>>>(b),
        len_arg: false,
        small: false,
    });
    v.push(P {
        name: "SerializableType::deserialize<Vec<u64>>",
        seeds: |_| ser_seeds(vec![("[]", vec![]), ("[edges]", U64_VALUES.to_vec())]),
        parse: |b, _| de::<Vec<u64>>(b),
        len_arg: false,
        small: false,
    });
    v.push(P {
        name: "SerializableType::deserialize<Box<Rc<Arc<String>>>>",
        seeds: |_| ser_seeds(vec![("boxed", Box::new(Rc::new(Arc::new(s("deep")))))]),
        parse: |b, _| de::<Box<Rc<Arc<String>>>>(b),
        len_arg: false,
        small: th,
    });
    v.push(P {
        name: "SerializableType::deserialize<Option<HashMap<String,Vec<u32>>>>",
        seeds: |_| {
            let mut m = HashMap::new();
            m.insert(s("k"), vec![1u32, 2, 3]);
            ser_seeds(vec![("None", None), ("Some({})", Some(HashMap::new())), ("Some({k:[1,2,3]})", Some(m))])
        },
        parse: |b, _| de::<Option<HashMap<String, Vec<u32>>>>(b),
        len_arg: false,
        small: th,
    });
    v.push(P {
        name: "SerializableType::deserialize<BTreeMap<String,BTreeSet<u32>>>",
        seeds: |_| {
            let mut m = BTreeMap::new();
            m.insert(s("k"), [1u32, 2, 3].into_iter().collect::<BTreeSet<u32>>());
            ser_seeds(vec![("{}", BTreeMap::new()), ("{k:{1,2,3}}", m)])
        },
        parse: |b, _| de::<BTreeMap<String, BTreeSet<u32>>>(b),
        len_arg: false,
        small: false,
    });
    v.push(P {
        name: "SerializableType::deserialize<HashSet<String>>",
        seeds: |_| ser_seeds(vec![("{}", HashSet::new()), ("{x}", [s("x")].into_iter().collect::<HashSet<String>>())]),
        parse: |b, _| de::<HashSet<String>>(b),
        len_arg: false,
        small: false,
    });

    // versioning
    v.push(P { name: "Version::deserialize", seeds: |_| ser_seeds(vec![("1.2.3", Version::new(1, 2, 3)), ("255.255.65535", Version::new(255, 255, 65535))]), parse: |b, _| de::<Version>(b), len_arg: false, small: true });
    v.push(P {
        name: "VersionProxy<String>::deserialize",
        seeds: |_| ser_seeds(vec![("proxy(hi)", VersionProxy::new(s("hi"), Version::new(1, 0, 0))), ("proxy(long)", VersionProxy::new(long_string(), Version::new(1, 0, 0)))]),
        parse: |b, _| de::<VersionProxy<String>>(b),
        len_arg: false,
        small: th,
    });
    v.push(P { name: "VersionedSerializer[default]::deserialize_from_bytes<Rec>", seeds: versioned_seeds, parse: |b, _| vs(0).deserialize_from_bytes::<Rec>(b).is_ok(), len_arg: false, small: th });
    v.push(P { name: "VersionedSerializer[strict]::deserialize_from_bytes<Rec>", seeds: versioned_seeds, parse: |b, _| vs(1).deserialize_from_bytes::<Rec>(b).is_ok(), len_arg: false, small: th });
    v.push(P { name: "VersionedSerializer[flexible]::deserialize_from_bytes<Rec>", seeds: versioned_seeds, parse: |b, _| vs(2).deserialize_from_bytes::<Rec>(b).is_ok(), len_arg: false, small: th });
    v.push(P { name: "VersionedSerializer[development]::deserialize_from_bytes<Rec>", seeds: versioned_seeds, parse: |b, _| vs(3).deserialize_from_bytes::<Rec>(b).is_ok(), len_arg: false, small: th });
    v.push(P {
        name: "VersionedSerialize::deserialize_versioned<Rec>",
        seeds: versioned_direct_seeds,
        parse: |b, _| {
            let mut i = SliceDataInput::new(b);
            Rec::deserialize_versioned(&mut i).is_ok()
        },
        len_arg: false,
        small: th,
    });
    v.push(P {
        name: "VersionManager::deserialize_proxy<Vec<String>>",
        seeds: |_| {
            let m = VersionManager::new(Version::new(1, 2, 0));
            [vec![], vec![s("a"), long_string()]]
                .iter()
                .filter_map(|x| {
                    let mut o = VecDataOutput::new();
                    m.serialize_proxy(&VersionProxy::new(x.clone(), Version::new(1, 0, 0)), &mut o).ok().map(|_| seed(&format!("proxy[{}]", x.len()), o.into_vec(), 0))
                })
                .collect()
        },
        parse: |b, _| {
            let m = VersionManager::new(Version::new(1, 2, 0));
            let mut i = SliceDataInput::new(b);
            m.deserialize_proxy::<Vec<String>, _>(Version::new(1, 0, 0), &mut i).is_ok()
        },
        len_arg: false,
        small: th,
    });

    // DataInput over a slice and over a reader
    v.push(P {
        name: "SliceDataInput::read_length_prefixed_string",
        seeds: lp_string_seeds,
        parse: |b, _| SliceDataInput::new(b).read_length_prefixed_string().is_ok(),
        len_arg: false,
        small: true,
    });
    v.push(P {
        name: "SliceDataInput::read_length_prefixed_bytes",
        seeds: lp_bytes_seeds,
        parse: |b, _| SliceDataInput::new(b).read_length_prefixed_bytes().is_ok(),
        len_arg: false,
        small: true,
    });
    v.push(P { name: "SliceDataInput::read_string(len)", seeds: raw_string_seeds, parse: |b, n| SliceDataInput::new(b).read_string(n).is_ok(), len_arg: true, small: th });
    v.push(P { name: "SliceDataInput::read_vec(len)", seeds: raw_string_seeds, parse: |b, n| SliceDataInput::new(b).read_vec(n).is_ok(), len_arg: true, small: th });
    v.push(P {
        name: "SliceDataInput::read_bytes(buf)",
        seeds: raw_string_seeds,
        parse: |b, n| {
            let mut buf = vec![0u8; n];
            SliceDataInput::new(b).read_bytes(&mut buf).is_ok()
        },
        len_arg: true,
        small: th,
    });
    v.push(P { name: "SliceDataInput::read_u8/u16/u32/u64/var_int/skip", seeds: fixed_ints_seeds, parse: |b, _| read_ints(&mut SliceDataInput::new(b)), len_arg: false, small: th });
    v.push(P {
        name: "ReaderDataInput::read_length_prefixed_string",
        seeds: lp_string_seeds,
        parse: |b, _| ReaderDataInput::new(std::io::Cursor::new(b)).read_length_prefixed_string().is_ok(),
        len_arg: false,
        small: th,
    });
    v.push(P {
        name: "ReaderDataInput::read_length_prefixed_bytes",
        seeds: lp_bytes_seeds,
        parse: |b, _| ReaderDataInput::new(std::io::Cursor::new(b)).read_length_prefixed_bytes().is_ok(),
        len_arg: false,
        small: th,
    });
    v.push(P {
        name: "ReaderDataInput::read_u8/u16/u32/u64/var_int/skip",
        seeds: fixed_ints_seeds,
        parse: |b, _| read_ints(&mut ReaderDataInput::new(std::io::Cursor::new(b))),
        len_arg: false,
        small: th,
    });
    v
}
