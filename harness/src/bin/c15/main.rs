//! C15 — decoders and loaders reject malformed bytes with an error, never a crash (engine E5).
//!
//! One `MutSpec` per parser: a seed corpus of valid encodings produced by the matching encoder, and
//! `parse` = call the parser, return whether it answered Ok or Err.  The engine enumerates the mutants
//! and runs them in a forked child under RLIMIT_AS with a watchdog.

use zverif::alloc as zalloc;
use zverif::mutate::{Mut, MutSpec, Seed};
use zverif::Tier;

mod parsers;

#[global_allocator]
static GLOBAL: zalloc::TrackingAlloc = zalloc::TrackingAlloc;

/// Small helper: a parser given as closures.
pub struct P {
    pub name: &'static str,
    pub seeds: fn(Tier) -> Vec<Seed>,
    pub parse: fn(&[u8], usize) -> bool,
    pub len_arg: bool,
    pub small: bool,
}
impl MutSpec for P {
    fn name(&self) -> String {
        self.name.to_string()
    }
    fn seeds(&self, tier: Tier) -> Vec<Seed> {
        // Seeds are built inside the forked child by running zipora's ENCODERS, some of which panic on
        // their own (not C15's subject).  An escaping panic would unwind through the engine and drop the
        // child's copy of `Ctx`, deleting the shard's scratch directory under the supervisor's feet; so a
        // panicking seed builder yields an empty corpus instead (visible as a parser with 0 seed cases).
        zverif::util::catch(|| (self.seeds)(tier)).unwrap_or_default()
    }
    fn parse(&self, input: &[u8], arg: usize) -> bool {
        (self.parse)(input, arg)
    }
    fn takes_len_arg(&self) -> bool {
        self.len_arg
    }
    fn small_strings(&self) -> bool {
        self.small
    }
}

pub fn seed(label: &str, bytes: Vec<u8>, n: usize) -> Seed {
    Seed { label: label.to_string(), bytes, expected_len: n }
}

/// Payloads the seed corpora are built from.
pub fn payloads() -> Vec<(&'static str, Vec<u8>)> {
    vec![
        ("empty", vec![]),
        ("a", b"a".to_vec()),
        ("abab", b"abababababababab".to_vec()),
        ("text", b"the quick brown fox jumps over the lazy dog; the quick brown fox".to_vec()),
        ("zeros", vec![0u8; 40]),
        ("ramp", (0..=255u8).collect()),
        // >= 100 bytes over a small alphabet: the first length at which FseEncoder emits a real FSE stream
        // (shorter inputs are stored with the 0xFF "uncompressed" marker).  Appended last: selector bytes
        // index this list, so the order of the earlier entries must not change.
        ("text128", b"the quick brown fox jumps over the lazy dog; the quick brown fox".repeat(2)),
    ]
}

fn main() {
    // An allocation failure ends a child via std's `rust_oom` -> abort; with RUST_BACKTRACE set in the
    // environment that path symbolises and prints a backtrace first (~0.1 s per dead child, and thousands
    // of children die in this check).  The verdict does not depend on it.
    std::env::set_var("RUST_BACKTRACE", "0");
    // `ZV_C15_SEEDS=1 c15 [--tier thorough]`: print the seed corpus (label, length, expected_len) of every parser and exit
    if std::env::var_os("ZV_C15_SEEDS").is_some() {
        let tier = if std::env::args().any(|a| a == "thorough") { Tier::Thorough } else { Tier::Quick };
        zverif::util::install_quiet_panic_hook();
        zverif::util::silence_stdout();
        parsers::NO_AS_LIMIT.store(true, std::sync::atomic::Ordering::Relaxed);
        for p in parsers::all(tier) {
            let seeds = match zverif::util::catch(|| (p.seeds)(tier)) {
                Ok(s) => s,
                Err(f) => {
                    eprintln!("{} | SEED BUILDER PANICKED: {}", p.name, f.detail);
                    Vec::new()
                }
            };
            let total: usize = seeds.iter().map(|s| s.bytes.len()).sum();
            eprintln!("{} | len_arg={} small={} | {} seeds, {} bytes", p.name, p.len_arg, p.small, seeds.len(), total);
            for s in &seeds {
                let ok = zverif::util::catch(|| (p.parse)(&s.bytes, s.expected_len));
                eprintln!("    {:<50} len={:<5} n={:<4} parse(seed)={:?}", s.label, s.bytes.len(), s.expected_len, ok.map_err(|f| f.class));
                if std::env::var("ZV_C15_SEEDS").map(|v| v == "hex").unwrap_or(false) {
                    eprintln!("    HEX\t{}\t{}\t{}\t{}", p.name, s.label, s.expected_len, zverif::util::hex(&s.bytes));
                }
            }
        }
        if let Ok(st) = std::fs::read_to_string("/proc/self/status") {
            for l in st.lines().filter(|l| l.starts_with("VmSize") || l.starts_with("VmRSS") || l.starts_with("VmPeak")) {
                eprintln!("{l}");
            }
        }
        return;
    }
    zverif::main_with("C15", |reg, tier| {
        for p in parsers::all(tier) {
            reg.add(Mut(p));
        }
    });
}
