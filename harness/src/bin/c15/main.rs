//! C15 — decoders and loaders reject malformed bytes with an error, never a crash (engine E5).
//!
//! One `MutSpec` per parser: a seed corpus of valid encodings produced by the matching encoder, and
//! `parse` = call the parser, return whether it answered Ok or Err.  The engine enumerates the mutants
//! and runs them in a forked child under RLIMIT_AS with a watchdog.

use zverif::alloc as zalloc;
use zverif::mutate::{Mut, MutSpec, Seed};
use zverif::Tier;

mod parsers;

#[global_allocator]
static GLOBAL: zalloc::TrackingAlloc = zalloc::TrackingAlloc;

/// Small helper: a parser given as closures.
pub struct P {
    pub name: &'static str,
    pub seeds: fn(Tier) -> Vec<Seed>,
    pub parse: fn(&[u8], usize) -> bool,
    pub len_arg: bool,
    pub small: bool,
}
impl MutSpec for P {
    fn name(&self) -> String {
        self.name.to_string()
    }
    fn seeds(&self, tier: Tier) -> Vec<Seed> {
        (self.seeds)(tier)
    }
    fn parse(&self, input: &[u8], arg: usize) -> bool {
        (self.parse)(input, arg)
    }
    fn takes_len_arg(&self) -> bool {
        self.len_arg
    }
    fn small_strings(&self) -> bool {
        self.small
    }
}

pub fn seed(label: &str, bytes: Vec<u8>, n: usize) -> Seed {
    Seed { label: label.to_string(), bytes, expected_len: n }
}

/// Payloads the seed corpora are built from.
pub fn payloads() -> Vec<(&'static str, Vec<u8>)> {
    vec![
        ("empty", vec![]),
        ("a", b"a".to_vec()),
        ("abab", b"abababababababab".to_vec()),
        ("text", b"the quick brown fox jumps over the lazy dog; the quick brown fox".to_vec()),
        ("zeros", vec![0u8; 40]),
        ("ramp", (0..=255u8).collect()),
    ]
}

fn main() {
    zverif::main_with("C15", |reg, tier| {
        for p in parsers::all(tier) {
            reg.add(Mut(p));
        }
    });
}
