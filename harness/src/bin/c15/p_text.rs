//! string/system: hex decoders, both Base64 decoders.
//!
//! The Base64 decoders take `&str`.  Two adapters turn arbitrary mutant bytes into a `&str`:
//! `[utf8]` rejects (returns "Err", never reaching the decoder) inputs that are not valid UTF-8;
//! `[latin1]` maps every byte to the char U+00xx, so every mutant reaches the decoder (as multi-byte chars).
use crate::{payloads, seed, P};
use zverif::mutate::Seed;
use zverif::Tier;

use zipora::io::simd_encoding::base64 as b64io;
use zipora::string::{hex_decode, hex_decode_bytes, hex_decode_to_slice, hex_encode, hex_encode_upper};
use zipora::system::base64::{AdaptiveBase64, Base64Config, SimdBase64Decoder, SimdImplementation};
use zipora::system::{base64_decode_simd, base64_encode_simd};

fn hex_seeds(_t: Tier) -> Vec<Seed> {
    let mut v = vec![seed("hex(00ff10)", b"00ff10".to_vec(), 3), seed("hex(DEADbeef)", b"DEADbeef".to_vec(), 4)];
    for (l, p) in payloads() {
        if p.len() <= 64 {
            v.push(seed(&format!("hex_encode({l})"), hex_encode(&p).into_bytes(), p.len()));
            v.push(seed(&format!("hex_encode_upper({l})"), hex_encode_upper(&p).into_bytes(), p.len()));
        }
    }
    v
}

fn latin1(b: &[u8]) -> String {
    b.iter().map(|&x| x as char).collect()
}

fn b64_cfg(url_safe: bool, padding: bool) -> Base64Config {
    Base64Config { url_safe, padding, force_implementation: None }
}

fn b64_seeds_with(enc: impl Fn(&[u8]) -> String) -> Vec<Seed> {
    let mut v = Vec::new();
    for (l, p) in payloads() {
        if p.len() <= 64 {
            v.push(seed(&format!("b64({l})"), enc(&p).into_bytes(), p.len()));
        }
    }
    // lengths 1..=3 mod 3, bytes that produce '+', '/', '-' and '_'
    for p in [&b"f"[..], b"fo", b"foo", b"\xfb\xff\xfe", b"\xff\xff\xff\xff"] {
        v.push(seed(&format!("b64[{}]", p.len()), enc(p).into_bytes(), p.len()));
    }
    v
}

fn b64_std_seeds(_t: Tier) -> Vec<Seed> {
    b64_seeds_with(base64_encode_simd)
}

macro_rules! b64_pair {
    ($v:ident, $name:literal, $seeds:expr, $dec:expr, $small:expr) => {
        $v.push(P {
            name: concat!($name, "[utf8]"),
            seeds: $seeds,
            parse: |b, _| match std::str::from_utf8(b) {
                Ok(s) => ($dec)(s),
                Err(_) => false,
            },
            len_arg: false,
            small: $small,
        });
        $v.push(P { name: concat!($name, "[latin1]"), seeds: $seeds, parse: |b, _| ($dec)(&latin1(b)), len_arg: false, small: $small });
    };
}

pub fn all(tier: Tier) -> Vec<P> {
    // every Base64 entry point ends in the same `base64` crate engine: all short strings for two of them in
    // quick, for all of them in thorough
    let th = tier == Tier::Thorough;
    let mut v: Vec<P> = vec![
        P { name: "hex_decode_bytes", seeds: hex_seeds, parse: |b, _| hex_decode_bytes(b).is_ok(), len_arg: false, small: true },
        P {
            name: "hex_decode[utf8]",
            seeds: hex_seeds,
            parse: |b, _| match std::str::from_utf8(b) {
                Ok(s) => hex_decode(s).is_ok(),
                Err(_) => false,
            },
            len_arg: false,
            small: true,
        },
        P { name: "hex_decode[latin1]", seeds: hex_seeds, parse: |b, _| hex_decode(&latin1(b)).is_ok(), len_arg: false, small: th },
        // the output buffer has the caller-expected decoded length (the length argument)
        P {
            name: "hex_decode_to_slice(out=len)",
            seeds: hex_seeds,
            parse: |b, n| {
                let mut out = vec![0u8; n];
                hex_decode_to_slice(b, &mut out).is_ok()
            },
            len_arg: true,
            small: th,
        },
    ];

    b64_pair!(v, "AdaptiveBase64[standard]::decode", b64_std_seeds, |s: &str| AdaptiveBase64::new().decode(s).is_ok(), true);
    b64_pair!(
        v,
        "AdaptiveBase64[url_safe]::decode",
        |_| b64_seeds_with(|p| AdaptiveBase64::with_config(b64_cfg(true, true)).encode(p)),
        |s: &str| AdaptiveBase64::with_config(b64_cfg(true, true)).decode(s).is_ok(),
        th
    );
    b64_pair!(
        v,
        "AdaptiveBase64[no_padding]::decode",
        |_| b64_seeds_with(|p| AdaptiveBase64::with_config(b64_cfg(false, false)).encode(p)),
        |s: &str| AdaptiveBase64::with_config(b64_cfg(false, false)).decode(s).is_ok(),
        th
    );
    b64_pair!(
        v,
        "AdaptiveBase64[url_safe,no_padding]::decode",
        |_| b64_seeds_with(|p| AdaptiveBase64::with_config(b64_cfg(true, false)).encode(p)),
        |s: &str| AdaptiveBase64::with_config(b64_cfg(true, false)).decode(s).is_ok(),
        th
    );
    b64_pair!(v, "SimdBase64Decoder::decode", b64_std_seeds, |s: &str| SimdBase64Decoder::new().decode(s).is_ok(), th);
    b64_pair!(
        v,
        "SimdBase64Decoder[force Scalar]::decode",
        b64_std_seeds,
        |s: &str| SimdBase64Decoder::with_config(Base64Config { url_safe: false, padding: true, force_implementation: Some(SimdImplementation::Scalar) }).decode(s).is_ok(),
        th
    );
    b64_pair!(v, "base64_decode_simd", b64_std_seeds, |s: &str| base64_decode_simd(s).is_ok(), th);
    b64_pair!(
        v,
        "simd_encoding::decode_base64",
        |_| b64_seeds_with(|p| b64io::encode_base64(p).unwrap_or_default()),
        |s: &str| b64io::decode_base64(s).is_ok(),
        true
    );
    v.push(P {
        name: "simd_encoding::decode_base64_from_buffer(out=len)",
        seeds: |_| b64_seeds_with(|p| b64io::encode_base64(p).unwrap_or_default()),
        parse: |b, n| {
            let mut out = vec![0u8; n];
            b64io::decode_base64_from_buffer(b, &mut out).is_ok()
        },
        len_arg: true,
        small: th,
    });
    v.push(P {
        name: "simd_encoding::decode_base64_from_buffer(out=calculate_decoded_len)",
        seeds: |_| b64_seeds_with(|p| b64io::encode_base64(p).unwrap_or_default()),
        parse: |b, _| {
            let mut out = vec![0u8; b64io::calculate_decoded_len(b.len())];
            b64io::decode_base64_from_buffer(b, &mut out).is_ok()
        },
        len_arg: false,
        small: true,
    });
    v
}
