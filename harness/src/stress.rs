//! Auxiliary engine — free-running stress of the same thread programs (SAMPLING, not exploration).
//!
//! The controlled scheduler (E3) interleaves threads only at schedule points, so a race that a change to zipora introduces
//! *between* two points (an atomic read-modify-write split into a load and a store, say) is invisible to it.  This engine runs
//! real threads uncontrolled (hooks pass through) for a fixed wall-clock budget and evaluates oracles that are sound under
//! every interleaving and memory ordering (a thread checks facts about tokens / blocks it owns itself; counters are compared
//! only after all threads have been joined).  It can only ever ADD a violation: its silence proves nothing and is never
//! reported as coverage of the property — the evidence lists it as `sampling`.  A violation it finds is a real failing
//! execution of the real code; the replay step re-runs the stress for a longer budget and keeps the verdict only if the
//! failure shows again.

use crate::core::{Ctx, Fail, Subject, Tier, Verdict};
use serde_json::{json, Value};
use std::time::Duration;

pub struct StressSpec {
    pub name: String,
    pub describe: String,
    /// run the stress for (about) the given time; Ok(iterations) or the first failure observed
    pub run: Box<dyn Fn(Duration) -> Result<u64, Fail> + Send + Sync>,
    pub budget_quick_ms: u64,
    pub budget_thorough_ms: u64,
}

pub struct Stress(pub StressSpec);

impl Subject for Stress {
    fn name(&self) -> String {
        self.0.name.clone()
    }
    fn explore(&self, ctx: &mut Ctx) {
        let name = self.name();
        // one shard runs it (all cores are wanted by the stress threads themselves)
        if !ctx.take_unit() {
            return;
        }
        let ms = if ctx.tier == Tier::Quick { self.0.budget_quick_ms } else { self.0.budget_thorough_ms };
        ctx.stats(&name).bound = format!("SAMPLING (auxiliary, not exhaustive, never a pass verdict): {}; free-running real threads for {} ms", self.0.describe, ms);
        ctx.journal(&name, &|| json!({"stress_ms": ms}));
        match crate::util::catch(|| (self.0.run)(Duration::from_millis(ms))) {
            Ok(Ok(iters)) => {
                let st = ctx.stats(&name);
                // (not booked as executions / transitions of the exploration: sampling is reported separately)
                *st.outcomes.entry("no_failure_observed".into()).or_insert(0) += 1;
                *st.extra.entry("sampled_iterations".into()).or_insert(0) += iters;
            }
            Ok(Err(f)) => {
                *ctx.stats(&name).outcomes.entry(format!("fail:{}:{}", f.clause, f.class)).or_insert(0) += 1;
                ctx.violation(&name, &f, json!({"stress_ms": ms}));
            }
            Err(f) => {
                ctx.violation(&name, &Fail::new("panic", f.detail.clone()).with_class("stress"), json!({"stress_ms": ms}));
            }
        }
    }
    fn replay(&self, _ctx: &mut Ctx, witness: &Value) -> Verdict {
        let ms = witness.get("stress_ms").and_then(|v| v.as_u64()).unwrap_or(1000);
        // a longer budget than the run that found it
        match crate::util::catch(|| (self.0.run)(Duration::from_millis(ms * 4))) {
            Ok(Ok(_)) => Verdict::Pass,
            Ok(Err(f)) => Verdict::Fail(f),
            Err(f) => Verdict::Fail(Fail::new("panic", f.detail).with_class("stress")),
        }
    }
}
