//! Reference-model helpers shared by the subjects.

use std::cell::RefCell;
use std::collections::BTreeMap;
use std::rc::Rc;

/// Registry of live `Tracked` elements: the C10 drop oracle.
#[derive(Default, Debug)]
pub struct DropRegistryInner {
    /// id -> number of live instances carrying that id (clones share the id)
    pub live: BTreeMap<u64, i64>,
    pub double_drops: Vec<u64>,
    pub created: u64,
    pub dropped: u64,
}

#[derive(Clone, Default, Debug)]
pub struct DropRegistry(pub Rc<RefCell<DropRegistryInner>>);

impl DropRegistry {
    pub fn new() -> Self {
        Self::default()
    }
    pub fn make(&self, id: u64) -> Tracked {
        let mut r = self.0.borrow_mut();
        *r.live.entry(id).or_insert(0) += 1;
        r.created += 1;
        Tracked { id, canary: CANARY, reg: std::mem::ManuallyDrop::new(self.clone()), heap: std::mem::ManuallyDrop::new(Box::new(id ^ 0x5555)) }
    }
    /// total number of live instances
    pub fn live_count(&self) -> i64 {
        self.0.borrow().live.values().sum()
    }
    pub fn double_drops(&self) -> Vec<u64> {
        self.0.borrow().double_drops.clone()
    }
    pub fn live_ids(&self) -> Vec<(u64, i64)> {
        self.0.borrow().live.iter().filter(|(_, c)| **c != 0).map(|(k, v)| (*k, *v)).collect()
    }
}

const CANARY: u64 = 0xC0FF_EE00_DEAD_BEEF;
const DEAD: u64 = 0xDEAD_DEAD_DEAD_DEAD;

/// Element type that owns heap memory and counts drops.  Equality is by id.
#[derive(Debug)]
pub struct Tracked {
    pub id: u64,
    canary: u64,
    reg: std::mem::ManuallyDrop<DropRegistry>,
    heap: std::mem::ManuallyDrop<Box<u64>>,
}

impl Tracked {
    /// true if this looks like a live, initialised element (not dropped / not garbage)
    pub fn is_valid(&self) -> bool {
        self.canary == CANARY && **self.heap == self.id ^ 0x5555
    }
}

impl Clone for Tracked {
    fn clone(&self) -> Self {
        self.reg.make(self.id)
    }
}

impl PartialEq for Tracked {
    fn eq(&self, o: &Self) -> bool {
        self.id == o.id
    }
}
impl Eq for Tracked {}
impl PartialOrd for Tracked {
    fn partial_cmp(&self, o: &Self) -> Option<std::cmp::Ordering> {
        Some(self.id.cmp(&o.id))
    }
}
impl Ord for Tracked {
    fn cmp(&self, o: &Self) -> std::cmp::Ordering {
        self.id.cmp(&o.id)
    }
}
impl std::hash::Hash for Tracked {
    fn hash<H: std::hash::Hasher>(&self, h: &mut H) {
        self.id.hash(h)
    }
}

impl Drop for Tracked {
    fn drop(&mut self) {
        {
            // the harness keeps its own handle on the registry, so this memory is alive even on a second drop
            let mut r = self.reg.0.borrow_mut();
            r.dropped += 1;
            if self.canary != CANARY {
                r.double_drops.push(self.id);
                return;
            }
            self.canary = DEAD;
            let c = r.live.entry(self.id).or_insert(0);
            *c -= 1;
            if *c < 0 {
                r.double_drops.push(self.id);
            }
        }
        unsafe {
            std::mem::ManuallyDrop::drop(&mut self.heap);
            std::mem::ManuallyDrop::drop(&mut self.reg);
        }
    }
}
