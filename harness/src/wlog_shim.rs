// Write-log recorder: in-binary interposition of the libc entry points Rust's std uses for file
// mutation.  Include this file in a *binary* crate (`#[path = ...] mod wlog_shim;`): symbols defined
// in the executable take precedence over libc.so for the statically linked std.
//
// Every call is forwarded to the kernel with a raw syscall; calls that touch a path under the
// recording prefix are appended to the log.  Anything that would make the log incomplete (a writable
// shared mapping of a tracked file, O_APPEND, link/symlink) sets `unsupported`.

use std::collections::HashMap;
use std::ffi::CStr;
use std::sync::Mutex;

#[derive(Clone, Debug, PartialEq)]
pub enum Op {
    /// file created or opened with O_TRUNC (content becomes empty); `existed` = it was there before
    Create { path: String, trunc: bool },
    Write { path: String, offset: u64, data: Vec<u8> },
    Truncate { path: String, len: u64 },
    Sync { path: String },
    Unlink { path: String },
    Rename { from: String, to: String },
    Mkdir { path: String },
}

pub struct Rec {
    pub prefix: String,
    pub ops: Vec<Op>,
    pub fds: HashMap<i32, String>,
    pub unsupported: Vec<String>,
}

pub static REC: Mutex<Option<Rec>> = Mutex::new(None);

thread_local! {
    static BUSY: std::cell::Cell<bool> = const { std::cell::Cell::new(false) };
}

pub fn start(prefix: &str) {
    *REC.lock().unwrap() = Some(Rec { prefix: prefix.to_string(), ops: Vec::new(), fds: HashMap::new(), unsupported: Vec::new() });
}

pub fn stop() -> Option<Rec> {
    REC.lock().unwrap().take()
}

pub fn position() -> usize {
    REC.lock().unwrap().as_ref().map(|r| r.ops.len()).unwrap_or(0)
}

fn with_rec(f: impl FnOnce(&mut Rec)) {
    if BUSY.with(|b| b.replace(true)) {
        return;
    }
    if let Ok(mut g) = REC.try_lock() {
        if let Some(r) = g.as_mut() {
            f(r);
        }
    }
    BUSY.with(|b| b.set(false));
}

unsafe fn cpath(p: *const libc::c_char) -> String {
    if p.is_null() {
        return String::new();
    }
    unsafe { CStr::from_ptr(p) }.to_string_lossy().into_owned()
}

fn rel(r: &Rec, path: &str) -> Option<String> {
    path.strip_prefix(&r.prefix).map(|s| s.trim_start_matches('/').to_string())
}

unsafe fn do_open(dirfd: i32, path: *const libc::c_char, flags: i32, mode: libc::mode_t) -> i32 {
    let p = unsafe { cpath(path) };
    let existed = std::path::Path::new(&p).exists();
    let fd = unsafe { libc::syscall(libc::SYS_openat, dirfd, path, flags, mode as libc::c_uint) } as i32;
    if fd >= 0 {
        let acc = flags & libc::O_ACCMODE;
        let writable = acc == libc::O_WRONLY || acc == libc::O_RDWR;
        with_rec(|r| {
            if let Some(rp) = rel(r, &p) {
                if flags & libc::O_DIRECTORY != 0 {
                    return;
                }
                r.fds.insert(fd, rp.clone());
                if writable {
                    if flags & libc::O_APPEND != 0 {
                        r.unsupported.push(format!("O_APPEND on {rp}"));
                    }
                    if (flags & libc::O_CREAT != 0 && !existed) || flags & libc::O_TRUNC != 0 {
                        r.ops.push(Op::Create { path: rp, trunc: flags & libc::O_TRUNC != 0 });
                    }
                }
            }
        });
    }
    fd
}

#[no_mangle]
pub unsafe extern "C" fn open64(path: *const libc::c_char, flags: i32, mode: libc::mode_t) -> i32 {
    unsafe { do_open(libc::AT_FDCWD, path, flags, mode) }
}
#[no_mangle]
pub unsafe extern "C" fn open(path: *const libc::c_char, flags: i32, mode: libc::mode_t) -> i32 {
    unsafe { do_open(libc::AT_FDCWD, path, flags, mode) }
}
#[no_mangle]
pub unsafe extern "C" fn openat64(dirfd: i32, path: *const libc::c_char, flags: i32, mode: libc::mode_t) -> i32 {
    unsafe { do_open(dirfd, path, flags, mode) }
}
#[no_mangle]
pub unsafe extern "C" fn openat(dirfd: i32, path: *const libc::c_char, flags: i32, mode: libc::mode_t) -> i32 {
    unsafe { do_open(dirfd, path, flags, mode) }
}

#[no_mangle]
pub unsafe extern "C" fn close(fd: i32) -> i32 {
    with_rec(|r| {
        r.fds.remove(&fd);
    });
    unsafe { libc::syscall(libc::SYS_close, fd) as i32 }
}

#[no_mangle]
pub unsafe extern "C" fn write(fd: i32, buf: *const libc::c_void, n: libc::size_t) -> libc::ssize_t {
    let off = unsafe { libc::syscall(libc::SYS_lseek, fd, 0i64, libc::SEEK_CUR) };
    let res = unsafe { libc::syscall(libc::SYS_write, fd, buf, n) } as libc::ssize_t;
    if res > 0 && fd > 2 {
        with_rec(|r| {
            if let Some(p) = r.fds.get(&fd).cloned() {
                let data = unsafe { std::slice::from_raw_parts(buf as *const u8, res as usize) }.to_vec();
                r.ops.push(Op::Write { path: p, offset: off.max(0) as u64, data });
            }
        });
    }
    res
}

#[no_mangle]
pub unsafe extern "C" fn pwrite64(fd: i32, buf: *const libc::c_void, n: libc::size_t, off: i64) -> libc::ssize_t {
    let res = unsafe { libc::syscall(libc::SYS_pwrite64, fd, buf, n, off) } as libc::ssize_t;
    if res > 0 {
        with_rec(|r| {
            if let Some(p) = r.fds.get(&fd).cloned() {
                let data = unsafe { std::slice::from_raw_parts(buf as *const u8, res as usize) }.to_vec();
                r.ops.push(Op::Write { path: p, offset: off as u64, data });
            }
        });
    }
    res
}
#[no_mangle]
pub unsafe extern "C" fn pwrite(fd: i32, buf: *const libc::c_void, n: libc::size_t, off: i64) -> libc::ssize_t {
    unsafe { pwrite64(fd, buf, n, off) }
}

#[no_mangle]
pub unsafe extern "C" fn writev(fd: i32, iov: *const libc::iovec, cnt: i32) -> libc::ssize_t {
    let off = unsafe { libc::syscall(libc::SYS_lseek, fd, 0i64, libc::SEEK_CUR) };
    let res = unsafe { libc::syscall(libc::SYS_writev, fd, iov, cnt) } as libc::ssize_t;
    if res > 0 && fd > 2 {
        with_rec(|r| {
            if let Some(p) = r.fds.get(&fd).cloned() {
                let mut data = Vec::new();
                let mut left = res as usize;
                for i in 0..cnt as usize {
                    let v = unsafe { &*iov.add(i) };
                    let take = v.iov_len.min(left);
                    data.extend_from_slice(unsafe { std::slice::from_raw_parts(v.iov_base as *const u8, take) });
                    left -= take;
                    if left == 0 {
                        break;
                    }
                }
                r.ops.push(Op::Write { path: p, offset: off.max(0) as u64, data });
            }
        });
    }
    res
}

#[no_mangle]
pub unsafe extern "C" fn ftruncate64(fd: i32, len: i64) -> i32 {
    let res = unsafe { libc::syscall(libc::SYS_ftruncate, fd, len) } as i32;
    if res == 0 {
        with_rec(|r| {
            if let Some(p) = r.fds.get(&fd).cloned() {
                r.ops.push(Op::Truncate { path: p, len: len as u64 });
            }
        });
    }
    res
}
#[no_mangle]
pub unsafe extern "C" fn ftruncate(fd: i32, len: i64) -> i32 {
    unsafe { ftruncate64(fd, len) }
}

unsafe fn do_sync(fd: i32, nr: libc::c_long) -> i32 {
    let res = unsafe { libc::syscall(nr, fd) } as i32;
    if res == 0 {
        with_rec(|r| {
            if let Some(p) = r.fds.get(&fd).cloned() {
                r.ops.push(Op::Sync { path: p });
            }
        });
    }
    res
}
#[no_mangle]
pub unsafe extern "C" fn fsync(fd: i32) -> i32 {
    unsafe { do_sync(fd, libc::SYS_fsync) }
}
#[no_mangle]
pub unsafe extern "C" fn fdatasync(fd: i32) -> i32 {
    unsafe { do_sync(fd, libc::SYS_fdatasync) }
}

#[no_mangle]
pub unsafe extern "C" fn unlink(path: *const libc::c_char) -> i32 {
    let p = unsafe { cpath(path) };
    let res = unsafe { libc::syscall(libc::SYS_unlinkat, libc::AT_FDCWD, path, 0) } as i32;
    if res == 0 {
        with_rec(|r| {
            if let Some(rp) = rel(r, &p) {
                r.ops.push(Op::Unlink { path: rp });
            }
        });
    }
    res
}

#[no_mangle]
pub unsafe extern "C" fn rename(from: *const libc::c_char, to: *const libc::c_char) -> i32 {
    let (f, t) = unsafe { (cpath(from), cpath(to)) };
    let res = unsafe { libc::syscall(libc::SYS_renameat, libc::AT_FDCWD, from, libc::AT_FDCWD, to) } as i32;
    if res == 0 {
        with_rec(|r| {
            if let (Some(rf), Some(rt)) = (rel(r, &f), rel(r, &t)) {
                r.ops.push(Op::Rename { from: rf, to: rt });
            }
        });
    }
    res
}

#[no_mangle]
pub unsafe extern "C" fn mkdir(path: *const libc::c_char, mode: libc::mode_t) -> i32 {
    let p = unsafe { cpath(path) };
    let res = unsafe { libc::syscall(libc::SYS_mkdirat, libc::AT_FDCWD, path, mode as libc::c_uint) } as i32;
    if res == 0 {
        with_rec(|r| {
            if let Some(rp) = rel(r, &p) {
                r.ops.push(Op::Mkdir { path: rp });
            }
        });
    }
    res
}

#[no_mangle]
pub unsafe extern "C" fn mmap(addr: *mut libc::c_void, len: libc::size_t, prot: i32, flags: i32, fd: i32, off: i64) -> *mut libc::c_void {
    if fd >= 0 && (flags & libc::MAP_SHARED) != 0 && (prot & libc::PROT_WRITE) != 0 {
        with_rec(|r| {
            if let Some(p) = r.fds.get(&fd).cloned() {
                r.unsupported.push(format!("writable shared mapping of {p}"));
            }
        });
    }
    unsafe { libc::syscall(libc::SYS_mmap, addr, len, prot, flags, fd, off) as *mut libc::c_void }
}
#[no_mangle]
pub unsafe extern "C" fn mmap64(addr: *mut libc::c_void, len: libc::size_t, prot: i32, flags: i32, fd: i32, off: i64) -> *mut libc::c_void {
    unsafe { mmap(addr, len, prot, flags, fd, off) }
}
