//! E3 — stateless exploration of thread interleavings of the real code under a controlled
//! scheduler (CHESS-style iterative context bounding).
//!
//! Real OS threads run the real zipora code; `verif_point!` hooks (cfg zipora_verif) call
//! into this scheduler, which lets exactly one registered thread run at a time.  Code between
//! two points runs atomically with respect to the other harness threads, so every execution
//! is a sequentially consistent interleaving at hook granularity.  A *choice* is an index
//! into the canonical enabled list (running thread first if still enabled, then ascending
//! ids); `run_one(prefix)` replays a choice prefix and then follows the non-pre-emptive
//! default (choice 0) to completion; the explorer branches on every later decision on every
//! alternative whose pre-emption cost fits the bound.

use crate::core::{Ctx, Fail, Subject, Tier, Verdict};
use crate::util::h64;
use serde_json::{json, Value};
use std::cell::Cell;
use std::collections::{HashMap, HashSet};
use std::panic::{catch_unwind, AssertUnwindSafe};
use std::sync::{Arc, Condvar, Mutex, OnceLock};
use std::time::{Duration, Instant};

#[derive(Clone, Debug, PartialEq, Eq, Hash)]
pub struct Event {
    pub tid: usize,
    pub site: &'static str,
    pub a: usize,
    pub b: usize,
}

#[derive(Clone, Debug)]
pub struct Decision {
    /// canonical enabled list at this decision
    pub enabled: Vec<usize>,
    /// index chosen
    pub chosen: usize,
    /// true iff the thread that was running is still enabled (switching away is a pre-emption)
    pub running_enabled: bool,
    /// true iff this decision follows a yield of the running thread (polling loop): deviating from the default
    /// here is free of pre-emption cost but is charged to a separate budget, otherwise unfair schedules that
    /// starve a runnable thread forever would make the space infinite
    pub after_yield: bool,
}

#[derive(Clone, Copy, Debug, PartialEq)]
enum Status {
    NotStarted,
    Parked,
    Running,
    Finished,
    /// the thread was scheduled and then stopped making progress inside a blocking call the scheduler cannot see (a real
    /// lock held by a parked thread): it is treated as blocked until it shows up at its next point
    Wedged,
}

/// Panic payload used to unwind harness threads when an execution is aborted.
pub struct AbortExec;

struct Inner {
    n: usize,
    status: Vec<Status>,
    yield_blocked: Vec<bool>,
    last_yield_fp: Vec<Option<u64>>,
    same_fp_yields: Vec<u32>,
    at_yield: Vec<bool>,
    last_run: Vec<u64>,
    clock: u64,
    current: Option<usize>,
    prefix: Vec<usize>,
    trace: Vec<Decision>,
    events: Vec<Event>,
    abort: bool,
    stuck: bool,
    failure: Option<Fail>,
    machinery: Option<String>,
    finished: usize,
    state_hashes: Vec<u64>,
    per_thread_events: Vec<u64>,
    max_events: usize,
    released: bool,
    /// scheduler-visible locks (`verif_lock_scope!`): address -> owning logical thread
    lock_owner: HashMap<usize, usize>,
    /// the lock a thread parked at a `lock.acquire` point is about to take
    waiting_lock: Vec<Option<usize>>,
    /// kernel thread id of the OS thread that currently carries logical thread t (0 = unknown)
    os_tid: Vec<i64>,
    /// bumped whenever any thread arrives at a point or finishes (progress indicator for the wedge watchdog)
    progress: u64,
    /// a thread was declared wedged during this execution (its OS thread may never come back)
    any_wedged: bool,
}

impl Inner {
    /// thread `t` is parked at a yield point (not at an ordinary point)
    fn yield_blocked_or_self(&self, t: usize) -> bool {
        self.at_yield[t]
    }
    /// thread `t` is parked at a `lock.acquire` point of a lock that is held: it is not enabled (blocking
    /// is modelled, the real `lock()` call that follows the point therefore never blocks)
    fn lock_blocked(&self, t: usize) -> bool {
        match self.waiting_lock[t] {
            Some(addr) => self.lock_owner.contains_key(&addr),
            None => false,
        }
    }
}

pub struct Exec {
    inner: Mutex<Inner>,
    cvs: Vec<Condvar>,
    done: Condvar,
    release_cv: Condvar,
    native: usize,
    yield_sites: Vec<&'static str>,
    finish_sites: Vec<&'static str>,
    /// maps (site, a, b) to a logical thread id for code that runs on threads the harness did not create (tokio workers)
    identify: Option<Box<dyn Fn(&'static str, usize, usize) -> Option<usize> + Send + Sync>>,
    monitor: Mutex<Option<Box<dyn FnMut(&Event) -> Result<(), Fail> + Send>>>,
    fingerprint: Option<Box<dyn Fn() -> u64 + Send + Sync>>,
}

static CURRENT_EXEC: Mutex<Option<Arc<Exec>>> = Mutex::new(None);
static HOOK_INSTALLED: OnceLock<()> = OnceLock::new();

thread_local! {
    static TID: Cell<Option<usize>> = const { Cell::new(None) };
    static IN_SCHED: Cell<bool> = const { Cell::new(false) };
}

/// OS threads (kernel ids) that were left blocked inside the library when their execution was given up.  If such a thread is
/// released later (the thread holding what it waited for unwinds), it runs on to completion on the OLD objects; its points must
/// not enter the execution that is current by then.
static ZOMBIES: Mutex<Vec<i64>> = Mutex::new(Vec::new());
static HAVE_ZOMBIES: std::sync::atomic::AtomicBool = std::sync::atomic::AtomicBool::new(false);

type Passive = Box<dyn Fn(&'static str, usize, usize) + Send>;
static PASSIVE: Mutex<Option<Passive>> = Mutex::new(None);

/// Observer called at every point while no controlled execution is active (used by sequential
/// subjects that only need to *see* a point, e.g. the pointer a release callback is about to dereference).
/// The observer may unwind (panic) to stop the library from performing the access.
pub fn set_passive_observer(f: Option<Passive>) {
    install_hook_once();
    *PASSIVE.lock().unwrap_or_else(|e| e.into_inner()) = f;
}

fn current_exec() -> Option<Arc<Exec>> {
    CURRENT_EXEC.lock().unwrap_or_else(|e| e.into_inner()).clone()
}

/// The function installed into zipora's `verif_hooks`.
fn hook(site: &'static str, a: usize, b: usize) {
    if IN_SCHED.with(|f| f.get()) {
        return;
    }
    if HAVE_ZOMBIES.load(std::sync::atomic::Ordering::Relaxed) {
        let me = unsafe { libc::syscall(libc::SYS_gettid) } as i64;
        if ZOMBIES.lock().unwrap_or_else(|e| e.into_inner()).contains(&me) {
            return;
        }
    }
    let Some(ex) = current_exec() else {
        if std::thread::panicking() {
            return;
        }
        IN_SCHED.with(|f| f.set(true));
        let g = PASSIVE.lock().unwrap_or_else(|e| e.into_inner());
        let r = catch_unwind(AssertUnwindSafe(|| {
            if let Some(f) = g.as_ref() {
                f(site, a, b);
            }
        }));
        drop(g);
        IN_SCHED.with(|f| f.set(false));
        if let Err(p) = r {
            std::panic::resume_unwind(p);
        }
        return;
    };
    let tid = match TID.with(|t| t.get()) {
        Some(t) => Some(t),
        None => ex.identify.as_ref().and_then(|f| f(site, a, b)),
    };
    let Some(tid) = tid else { return };
    if std::thread::panicking() {
        // unwinding after an aborted execution: drops run free, never panic again
        return;
    }
    if ex.finish_sites.iter().any(|s| *s == site) {
        ex.thread_finish(tid);
        return;
    }
    ex.arrive(tid, site, a, b);
}

/// Called by harness code (not the library) to add a schedule point of its own.
pub fn point(site: &'static str, a: usize, b: usize) {
    hook(site, a, b);
}

/// Report a violation detected by harness thread code (ownership table etc.); aborts the execution.
pub fn fail_now(f: Fail) -> ! {
    if let Some(ex) = current_exec() {
        let mut g = ex.inner.lock().unwrap_or_else(|e| e.into_inner());
        if g.failure.is_none() {
            g.failure = Some(f);
        }
        g.abort = true;
        ex.done.notify_all();
        drop(g);
    }
    std::panic::resume_unwind(Box::new(AbortExec));
}

impl Exec {
    fn enabled_list(g: &Inner, running: Option<usize>) -> (Vec<usize>, bool) {
        let mut v = Vec::new();
        let mut running_enabled = false;
        if let Some(r) = running {
            if g.status[r] == Status::Parked && !g.yield_blocked[r] && !g.lock_blocked(r) {
                v.push(r);
                running_enabled = true;
            }
        }
        let mut others: Vec<usize> = (0..g.n).filter(|&t| Some(t) != running && g.status[t] == Status::Parked && !g.yield_blocked[t] && !g.lock_blocked(t)).collect();
        if !running_enabled {
            // the running thread yielded or finished: fair default — the thread that has not run for the longest
            // time comes first (otherwise two pollers could starve a third thread forever)
            others.sort_by_key(|&t| (g.last_run[t], t));
        }
        v.extend(others);
        (v, running_enabled)
    }

    /// Decide who runs next; must be called with the arriving/finishing thread already marked.
    /// Returns the chosen thread, or None if nothing is enabled.
    fn decide(&self, g: &mut Inner, running: Option<usize>) -> Option<usize> {
        let (enabled, running_enabled) = Self::enabled_list(g, running);
        if enabled.is_empty() {
            return None;
        }
        let pos = g.trace.len();
        let chosen = if pos < g.prefix.len() {
            let c = g.prefix[pos];
            if c >= enabled.len() {
                g.machinery = Some(format!("replay divergence: choice {} out of range at decision {} (enabled {:?})", c, pos, enabled));
                g.abort = true;
                0
            } else {
                c
            }
        } else {
            0
        };
        let t = enabled[chosen];
        let after_yield = match running {
            Some(r) => !running_enabled && g.at_yield[r] && g.status[r] == Status::Parked,
            None => false,
        };
        g.trace.push(Decision { enabled, chosen, running_enabled, after_yield });
        if let Some(addr) = g.waiting_lock[t].take() {
            // `t` resumes from its lock.acquire point: it owns the lock from here on
            g.lock_owner.insert(addr, t);
        }
        Some(t)
    }

    fn all_live_stuck(&self, g: &Inner, fp: u64) -> bool {
        // every unfinished thread is parked at a yield point it reached with the same fingerprint
        for t in 0..g.n {
            match g.status[t] {
                Status::Finished => {}
                Status::Parked => {
                    if g.last_yield_fp[t] != Some(fp) || g.same_fp_yields[t] < 2 || !g.yield_blocked_or_self(t) {
                        return false;
                    }
                }
                _ => return false,
            }
        }
        true
    }

    /// The running thread `tid` leaves the execution by unwinding.  Unwinding is serialized too: a native
    /// thread passes the token on in `thread_finish` (called by its wrapper after the unwind); an external
    /// logical thread (tokio task) has no wrapper, so it is marked finished here.
    fn unwind_self(&self, g: std::sync::MutexGuard<'_, Inner>, tid: usize) -> ! {
        self.done.notify_all();
        drop(g);
        if tid >= self.native {
            self.thread_finish(tid);
        }
        IN_SCHED.with(|f| f.set(false));
        std::panic::resume_unwind(Box::new(AbortExec));
    }

    fn arrive(&self, tid: usize, site: &'static str, a: usize, b: usize) {
        IN_SCHED.with(|f| f.set(true));
        {
            // first point of an external logical thread (tokio task): this is its start — park until scheduled
            let mut g = self.inner.lock().unwrap_or_else(|e| e.into_inner());
            if g.status[tid] == Status::NotStarted {
                g.status[tid] = Status::Parked;
                self.done.notify_all();
                g = self.wait_turn(g, tid);
                if g.abort {
                    self.unwind_self(g, tid);
                }
                drop(g);
                IN_SCHED.with(|f| f.set(false));
                return;
            }
        }
        {
            let mut g = self.inner.lock().unwrap_or_else(|e| e.into_inner());
            g.os_tid[tid] = unsafe { libc::syscall(libc::SYS_gettid) } as i64;
            g.progress += 1;
            if g.status[tid] == Status::Wedged {
                // the blocking call returned after all (another thread released what it was waiting for): from here on the
                // thread is an ordinary parked thread again; it waits for its turn before it performs the guarded access
                g.status[tid] = Status::Parked;
                if site == "lock.acquire" {
                    g.waiting_lock[tid] = Some(a);
                } else if site == "lock.release" {
                    if g.lock_owner.get(&a) == Some(&tid) {
                        g.lock_owner.remove(&a);
                    }
                }
                g.events.push(Event { tid, site, a, b });
                self.done.notify_all();
                g = self.wait_turn(g, tid);
                if g.abort {
                    self.unwind_self(g, tid);
                }
                if let Some(addr) = g.waiting_lock[tid].take() {
                    g.lock_owner.insert(addr, tid);
                }
                drop(g);
                IN_SCHED.with(|f| f.set(false));
                return;
            }
        }
        if site == "lock.release" {
            // bookkeeping only, not a scheduling decision: the threads waiting for this lock become enabled at
            // the releasing thread's next point (or when it finishes); nothing but thread-local code runs in between
            let mut g = self.inner.lock().unwrap_or_else(|e| e.into_inner());
            if g.lock_owner.get(&a) == Some(&tid) {
                g.lock_owner.remove(&a);
            }
            g.events.push(Event { tid, site, a, b });
            drop(g);
            IN_SCHED.with(|f| f.set(false));
            return;
        }
        let ev = Event { tid, site, a, b };
        // oracle at every point (sees a consistent state: only this thread is running)
        let mon_result = {
            let mut m = self.monitor.lock().unwrap_or_else(|e| e.into_inner());
            match m.as_mut() {
                Some(f) => f(&ev),
                None => Ok(()),
            }
        };
        let is_yield = self.yield_sites.iter().any(|s| *s == site);
        let fp = if is_yield { self.fingerprint.as_ref().map(|f| f()).unwrap_or(0) } else { 0 };

        let mut g = self.inner.lock().unwrap_or_else(|e| e.into_inner());
        if g.current != Some(tid) && !g.abort {
            g.machinery = Some(format!("thread {tid} reached point {site} while thread {:?} is scheduled (uncontrolled concurrency)", g.current));
            g.abort = true;
        }
        g.events.push(ev);
        g.per_thread_events[tid] += 1;
        g.clock += 1;
        g.last_run[tid] = g.clock;
        if g.events.len() > g.max_events && !g.abort {
            g.machinery = Some(format!("execution exceeded {} events (unbounded loop?)", g.max_events));
            g.abort = true;
        }
        if let Err(f) = mon_result {
            if g.failure.is_none() {
                g.failure = Some(f);
            }
            g.abort = true;
        }
        if g.abort {
            self.unwind_self(g, tid);
        }
        // this thread made a step: everybody else's yield block is lifted
        for t in 0..g.n {
            if t != tid {
                g.yield_blocked[t] = false;
            }
        }
        g.status[tid] = Status::Parked;
        if site == "lock.acquire" {
            g.waiting_lock[tid] = Some(a);
        }
        if is_yield {
            g.yield_blocked[tid] = true;
            if g.last_yield_fp[tid] == Some(fp) {
                g.same_fp_yields[tid] += 1;
            } else {
                g.same_fp_yields[tid] = 1;
            }
            g.last_yield_fp[tid] = Some(fp);
            g.at_yield[tid] = true;
            if self.all_live_stuck(&g, fp) {
                g.stuck = true;
                g.abort = true;
                self.unwind_self(g, tid);
            }
        } else {
            g.at_yield[tid] = false;
        }
        let sh = h64(&(&g.per_thread_events, site, tid, if is_yield { fp } else { 0 }));
        g.state_hashes.push(sh);

        let next = self.decide(&mut g, Some(tid));
        if g.abort {
            g.status[tid] = Status::Running;
            self.unwind_self(g, tid);
        }
        let mut switched = false;
        match next {
            Some(t) if t == tid => {
                g.status[tid] = Status::Running;
            }
            Some(t) => {
                g.current = Some(t);
                g.status[t] = Status::Running;
                self.cvs[t].notify_all();
                g = self.wait_turn(g, tid);
                switched = true;
            }
            None if g.lock_blocked(tid) => {
                // blocked on a held lock and nobody else can run: the main thread reports the deadlock
                g.current = None;
                self.done.notify_all();
                g = self.wait_turn(g, tid);
            }
            None => {
                // only possible if this thread yield-blocked itself and nobody else can run:
                // lift its own block (a lone poller keeps polling)
                g.yield_blocked[tid] = false;
                g.status[tid] = Status::Running;
                g.trace.push(Decision { enabled: vec![tid], chosen: 0, running_enabled: true, after_yield: false });
            }
        }
        if g.abort {
            self.unwind_self(g, tid);
        }
        drop(g);
        if switched {
            // other threads ran in between: evaluate the oracle again right before this thread performs the
            // access the point guards (a pointer that was live on arrival may have been freed meanwhile)
            let r = {
                let mut m = self.monitor.lock().unwrap_or_else(|e| e.into_inner());
                match m.as_mut() {
                    Some(f) => f(&Event { tid, site, a, b }),
                    None => Ok(()),
                }
            };
            if let Err(f) = r {
                let mut g = self.inner.lock().unwrap_or_else(|e| e.into_inner());
                if g.failure.is_none() {
                    g.failure = Some(f);
                }
                g.abort = true;
                self.unwind_self(g, tid);
            }
        }
        IN_SCHED.with(|f| f.set(false));
    }

    fn wait_turn<'a>(&'a self, mut g: std::sync::MutexGuard<'a, Inner>, tid: usize) -> std::sync::MutexGuard<'a, Inner> {
        // also in abort mode a thread only proceeds (to unwind) when it is handed the token
        while g.current != Some(tid) {
            g = self.cvs[tid].wait(g).unwrap_or_else(|e| e.into_inner());
        }
        g.status[tid] = Status::Running;
        g
    }

    /// Called by the main thread: abort the execution and start the serialized unwinding by handing the
    /// token to the first parked thread (if the token is not currently held by a running thread).
    fn kick_abort(&self, g: &mut Inner) {
        g.abort = true;
        let holder_alive = g.current.map(|c| g.status[c] == Status::Running).unwrap_or(false);
        if !holder_alive {
            match (0..g.n).find(|t| g.status[*t] == Status::Parked) {
                Some(t) => {
                    g.current = Some(t);
                    self.cvs[t].notify_all();
                }
                None => g.current = None,
            }
        }
    }

    /// First thing a harness thread does: park until scheduled.
    fn thread_start(&self, tid: usize) -> bool {
        TID.with(|t| t.set(Some(tid)));
        let mut g = self.inner.lock().unwrap_or_else(|e| e.into_inner());
        g.status[tid] = Status::Parked;
        g.os_tid[tid] = unsafe { libc::syscall(libc::SYS_gettid) } as i64;
        self.done.notify_all();
        g = self.wait_turn(g, tid);
        !g.abort
    }

    /// For logical threads that are not OS threads created by the harness (tokio tasks): mark as parked.
    pub fn register_external(&self, tid: usize) {
        let mut g = self.inner.lock().unwrap_or_else(|e| e.into_inner());
        g.status[tid] = Status::Parked;
        self.done.notify_all();
    }

    pub fn thread_finish(&self, tid: usize) {
        IN_SCHED.with(|f| f.set(true));
        let mut g = self.inner.lock().unwrap_or_else(|e| e.into_inner());
        g.status[tid] = Status::Finished;
        g.finished += 1;
        g.progress += 1;
        for t in 0..g.n {
            g.yield_blocked[t] = false;
        }
        let mut handed_over = false;
        if !g.abort {
            if g.finished == g.n {
                g.current = None;
            } else if g.current == Some(tid) {
                match self.decide(&mut g, None) {
                    Some(t) => {
                        // (decide may have set `abort` on a replay divergence: `t` still gets the token and unwinds)
                        g.current = Some(t);
                        g.status[t] = Status::Running;
                        self.cvs[t].notify_all();
                        handed_over = true;
                    }
                    None => {
                        // unfinished threads exist but none is enabled: they never started or are blocked
                        g.current = None;
                    }
                }
            }
        }
        if g.abort && !handed_over {
            // serialized unwinding: hand the token to the next parked thread, which will unwind in turn
            match (0..g.n).find(|t| g.status[*t] == Status::Parked) {
                Some(t) => {
                    g.current = Some(t);
                    self.cvs[t].notify_all();
                }
                None => g.current = None,
            }
        }
        self.done.notify_all();
        drop(g);
        IN_SCHED.with(|f| f.set(false));
        if tid < self.native {
            TID.with(|t| t.set(None));
        }
    }
}

/// What a scenario provides for one execution.
pub struct Scenario {
    /// logical threads 0..n (plain closures run on fresh OS threads)
    pub threads: Vec<Box<dyn FnOnce() + Send>>,
    /// number of additional logical threads that are driven from outside (tokio tasks), identified by `identify`
    pub external_threads: usize,
    pub identify: Option<Box<dyn Fn(&'static str, usize, usize) -> Option<usize> + Send + Sync>>,
    /// oracle evaluated at every point, inside the scheduler
    pub monitor: Option<Box<dyn FnMut(&Event) -> Result<(), Fail> + Send>>,
    /// shared-state fingerprint used for livelock ("stuck") detection at yield points
    pub fingerprint: Option<Box<dyn Fn() -> u64 + Send + Sync>>,
    /// called on the main thread once every thread has been spawned and parked, before the first decision
    /// (e.g. to start external tasks); receives the Exec
    pub after_spawn: Option<Box<dyn FnOnce(&Arc<Exec>)>>,
    /// final oracle at quiescence (or after a stuck/aborted execution: `stuck` says which)
    pub finish: Box<dyn FnOnce(&ExecResult) -> Result<(), Fail>>,
}

pub struct ExecResult {
    pub trace: Vec<Decision>,
    pub events: Vec<Event>,
    pub stuck: bool,
    pub failure: Option<Fail>,
    pub machinery: Option<String>,
    pub state_hashes: Vec<u64>,
}

impl ExecResult {
    pub fn choices(&self) -> Vec<usize> {
        let mut c: Vec<usize> = self.trace.iter().map(|d| d.chosen).collect();
        while c.last() == Some(&0) {
            c.pop();
        }
        c
    }
    pub fn preemptions_before(&self, i: usize) -> usize {
        self.trace[..i].iter().filter(|d| d.running_enabled && d.chosen != 0).count()
    }
    pub fn yield_deviations_before(&self, i: usize) -> usize {
        self.trace[..i].iter().filter(|d| d.after_yield && d.chosen != 0).count()
    }
}

pub trait SchedSpec {
    fn name(&self) -> String;
    fn bound(&self, tier: Tier) -> usize;
    fn describe(&self, tier: Tier) -> String;
    fn yield_sites(&self) -> Vec<&'static str> {
        vec!["verif.yield"]
    }
    /// arrival at one of these sites means the (external) logical thread has finished
    fn finish_sites(&self) -> Vec<&'static str> {
        vec![]
    }
    fn max_events(&self) -> usize {
        20_000
    }
    fn build(&self) -> Scenario;
}

fn install_hook_once() {
    HOOK_INSTALLED.get_or_init(|| {
        zipora::verif_hooks::install(hook);
    });
}

/// Run one execution following `prefix`, then the default schedule.
pub fn run_one<S: SchedSpec>(spec: &S, prefix: &[usize]) -> ExecResult {
    install_hook_once();
    let sc = spec.build();
    let n = sc.threads.len() + sc.external_threads;
    let ex = Arc::new(Exec {
        inner: Mutex::new(Inner {
            n,
            status: vec![Status::NotStarted; n],
            yield_blocked: vec![false; n],
            last_yield_fp: vec![None; n],
            same_fp_yields: vec![0; n],
            at_yield: vec![false; n],
            last_run: vec![0; n],
            clock: 0,
            current: None,
            prefix: prefix.to_vec(),
            trace: Vec::new(),
            events: Vec::new(),
            abort: false,
            stuck: false,
            failure: None,
            machinery: None,
            finished: 0,
            state_hashes: Vec::new(),
            per_thread_events: vec![0; n],
            max_events: spec.max_events(),
            released: false,
            lock_owner: HashMap::new(),
            waiting_lock: vec![None; n],
            os_tid: vec![0; n],
            progress: 0,
            any_wedged: false,
        }),
        cvs: (0..n).map(|_| Condvar::new()).collect(),
        done: Condvar::new(),
        release_cv: Condvar::new(),
        native: sc.threads.len(),
        yield_sites: spec.yield_sites(),
        finish_sites: spec.finish_sites(),
        identify: sc.identify,
        monitor: Mutex::new(sc.monitor),
        fingerprint: sc.fingerprint,
    });
    *CURRENT_EXEC.lock().unwrap_or_else(|e| e.into_inner()) = Some(ex.clone());

    let mut handles = Vec::new();
    for (tid, body) in sc.threads.into_iter().enumerate() {
        let ex2 = ex.clone();
        handles.push(
            std::thread::Builder::new()
                .name(format!("zv-t{tid}"))
                .spawn(move || {
                    let go = ex2.thread_start(tid);
                    if go {
                        let r = catch_unwind(AssertUnwindSafe(body));
                        if let Err(p) = r {
                            if p.downcast_ref::<AbortExec>().is_none() {
                                // a genuine panic inside the library/harness thread body
                                let (msg, loc) = crate::util::take_last_panic();
                                let mut g = ex2.inner.lock().unwrap_or_else(|e| e.into_inner());
                                if g.failure.is_none() {
                                    let class = crate::util::panic_class(&loc, &msg);
                                    let loc = crate::util::short_loc(&loc);
                                    g.failure = Some(Fail { clause: "panic".into(), class, detail: format!("thread {tid} panicked at {loc}: {msg}") });
                                }
                                g.abort = true;
                            }
                        }
                    }
                    ex2.thread_finish(tid);
                    // keep the OS thread (and its thread-local slots / recycled thread ids) alive until the whole
                    // execution is over: thread exit timing must not be a source of nondeterminism
                    let mut g = ex2.inner.lock().unwrap_or_else(|e| e.into_inner());
                    while !g.released {
                        g = ex2.release_cv.wait(g).unwrap_or_else(|e| e.into_inner());
                    }
                })
                .expect("spawn"),
        );
    }
    // wait until every OS thread is parked at its start
    {
        let mut g = ex.inner.lock().unwrap_or_else(|e| e.into_inner());
        let native = handles.len();
        while (0..native).any(|t| g.status[t] == Status::NotStarted) {
            g = ex.done.wait(g).unwrap_or_else(|e| e.into_inner());
        }
    }
    if let Some(f) = sc.after_spawn {
        f(&ex);
    }
    {
        // external logical threads park at their first point
        let mut g = ex.inner.lock().unwrap_or_else(|e| e.into_inner());
        let t0 = Instant::now();
        while (0..n).any(|t| g.status[t] == Status::NotStarted) && t0.elapsed() < Duration::from_secs(10) {
            let (g2, _) = ex.done.wait_timeout(g, Duration::from_millis(100)).unwrap_or_else(|e| e.into_inner());
            g = g2;
        }
        if (0..n).any(|t| g.status[t] == Status::NotStarted) {
            g.machinery = Some("an external logical thread never reached its first point".into());
            ex.kick_abort(&mut g);
        }
    }
    // first decision
    {
        let mut g = ex.inner.lock().unwrap_or_else(|e| e.into_inner());
        if g.abort {
            // nothing
        } else if let Some(t) = ex.decide(&mut g, None) {
            g.current = Some(t);
            g.status[t] = Status::Running;
            ex.cvs[t].notify_all();
        }
    }
    // wait for completion
    let t0 = Instant::now();
    let mut t_progress = Instant::now();
    let mut last_progress = u64::MAX;
    let mut wedged_threads: Vec<usize> = Vec::new();
    let has_external = n > handles.len();
    {
        let mut g = ex.inner.lock().unwrap_or_else(|e| e.into_inner());
        loop {
            if g.progress != last_progress {
                last_progress = g.progress;
                t_progress = Instant::now();
            }
            if g.finished == g.n {
                break;
            }
            if g.abort {
                // wait for native threads to unwind; external threads may never report
                let native_done = (0..handles.len()).all(|t| g.status[t] == Status::Finished || g.status[t] == Status::Wedged);
                if native_done {
                    break;
                }
            }
            if g.current.is_none() && !g.abort && g.finished < g.n {
                // no enabled thread but unfinished ones exist
                let (en, _) = Exec::enabled_list(&g, None);
                let wedged_now: Vec<usize> = (0..g.n).filter(|t| g.status[*t] == Status::Wedged).collect();
                if en.is_empty() && !wedged_now.is_empty() && !(t_progress.elapsed() > Duration::from_secs(3) && wedged_now.iter().all(|t| os_thread_sleeping(g.os_tid[*t]))) {
                    // a thread that was blocked inside the library may be about to come back (what it waited for has just been
                    // released): it gets 3 s of silence before the state counts as a deadlock
                } else if en.is_empty() {
                    let msg = format!("no enabled thread; status {:?}", g.status);
                    let cls = if g.any_wedged { "blocked_in_library" } else { "" };
                    g.failure.get_or_insert(Fail::new("deadlock", msg).with_class(cls));
                    ex.kick_abort(&mut g);
                    continue;
                } else if g.any_wedged {
                    // a thread that had been blocked inside the library came back and parked while nobody held the token
                    if let Some(t) = ex.decide(&mut g, None) {
                        g.current = Some(t);
                        g.status[t] = Status::Running;
                        ex.cvs[t].notify_all();
                        t_progress = Instant::now();
                    }
                }
            }
            if g.progress != last_progress {
                last_progress = g.progress;
                t_progress = Instant::now();
            }
            let silent = t_progress.elapsed();
            if silent > Duration::from_secs(3) && !g.abort {
                if let Some(r) = g.current.filter(|r| g.status[*r] == Status::Running) {
                    // the scheduled thread has not reached a point for 3 s.  If its OS thread sleeps in the kernel it is blocked
                    // on something a parked thread holds and the scheduler does not know about (a real lock taken outside a
                    // declared lock scope): treat it as blocked and let the others run.  A thread that is still runnable
                    // (starved machine, long computation) gets 60 s.
                    let sleeping = os_thread_sleeping(g.os_tid[r]);
                    if sleeping || silent > Duration::from_secs(60) {
                        g.status[r] = Status::Wedged;
                        g.any_wedged = true;
                        wedged_threads.push(r);
                        let (others, _) = Exec::enabled_list(&g, None);
                        if has_external && !others.is_empty() {
                            // logical threads carried by a foreign runtime (tokio tasks) cannot be resumed out of order safely:
                            // without proof that nothing else can run this stays a machinery error, not a verdict
                            g.machinery = Some(format!("execution wedged: thread {r} is blocked outside the scheduler while {:?} could still run; status {:?}", others, g.status));
                            g.abort = true;
                            break;
                        }
                        match ex.decide(&mut g, None) {
                            Some(t) => {
                                g.current = Some(t);
                                g.status[t] = Status::Running;
                                ex.cvs[t].notify_all();
                                t_progress = Instant::now();
                            }
                            None => {
                                let msg = format!(
                                    "thread {r} is blocked inside the library ({}) and no other thread can run: every other unfinished thread waits for a lock ({:?}); thread status {:?}",
                                    if sleeping { "its OS thread sleeps in a blocking call" } else { "no schedule point for 60 s" },
                                    g.waiting_lock,
                                    g.status
                                );
                                g.failure.get_or_insert(Fail::new("deadlock", msg).with_class("blocked_in_library"));
                                ex.kick_abort(&mut g);
                                continue;
                            }
                        }
                    }
                }
            }
            if t0.elapsed() > Duration::from_secs(std::env::var("ZV_WEDGE_LIMIT").ok().and_then(|v| v.parse().ok()).unwrap_or(30)) {
                g.machinery = Some(format!(
                    "execution wedged (a thread is blocked outside the scheduler); status {:?} current {:?} lock_owner {:?} waiting_lock {:?} any_wedged {} yield_blocked {:?}",
                    g.status, g.current, g.lock_owner, g.waiting_lock, g.any_wedged, g.yield_blocked
                ));
                g.abort = true;
                break;
            }
            let (g2, _) = ex.done.wait_timeout(g, Duration::from_millis(200)).unwrap_or_else(|e| e.into_inner());
            g = g2;
        }
    }
    let wedged = {
        let g = ex.inner.lock().unwrap_or_else(|e| e.into_inner());
        g.machinery.as_deref().map(|m| m.contains("wedged")).unwrap_or(false) || g.status.iter().any(|s| *s == Status::Wedged)
    };
    {
        let mut g = ex.inner.lock().unwrap_or_else(|e| e.into_inner());
        g.released = true;
        ex.release_cv.notify_all();
    }
    if !wedged {
        for h in handles {
            let _ = h.join();
        }
    } else {
        let g = ex.inner.lock().unwrap_or_else(|e| e.into_inner());
        let mut z = ZOMBIES.lock().unwrap_or_else(|e| e.into_inner());
        for t in 0..g.n {
            if g.status[t] != Status::Finished && g.os_tid[t] > 0 {
                z.push(g.os_tid[t]);
            }
        }
        HAVE_ZOMBIES.store(true, std::sync::atomic::Ordering::Relaxed);
    }
    *CURRENT_EXEC.lock().unwrap_or_else(|e| e.into_inner()) = None;
    let mut res = {
        let mut g = ex.inner.lock().unwrap_or_else(|e| e.into_inner());
        ExecResult {
            trace: std::mem::take(&mut g.trace),
            events: std::mem::take(&mut g.events),
            stuck: g.stuck,
            failure: g.failure.take(),
            machinery: g.machinery.take(),
            state_hashes: std::mem::take(&mut g.state_hashes),
        }
    };
    if res.machinery.is_none() && res.failure.is_none() {
        let fin = catch_unwind(AssertUnwindSafe(|| (sc.finish)(&res)));
        match fin {
            Ok(Ok(())) => {}
            Ok(Err(f)) => {
                if res.failure.is_none() {
                    res.failure = Some(f);
                }
            }
            Err(_) => {
                let (msg, loc) = crate::util::take_last_panic();
                if res.failure.is_none() {
                    res.failure = Some(Fail { clause: "panic".into(), class: crate::util::panic_class(&loc, &msg), detail: format!("finish panicked: {msg}") });
                }
            }
        }
    }
    res
}

pub struct Sched<S: SchedSpec>(pub S);

fn trace_sig(r: &ExecResult) -> u64 {
    let ev: Vec<(usize, &str)> = r.events.iter().map(|e| (e.tid, e.site)).collect();
    let en: Vec<&Vec<usize>> = r.trace.iter().map(|d| &d.enabled).collect();
    h64(&(ev, en, r.failure.as_ref().map(|f| f.clause.clone())))
}

impl<S: SchedSpec> Subject for Sched<S> {
    fn name(&self) -> String {
        self.0.name()
    }

    fn explore(&self, ctx: &mut Ctx) {
        let name = self.name();
        let bound = self.0.bound(ctx.tier);
        ctx.stats(&name).bound = format!("{}; pre-emption bound {} (iterative context bounding, all bounds below it included; deviations from the default thread after a polling-loop yield are bounded by the same number)", self.0.describe(ctx.tier), bound);
        // stack of prefixes to explore; sharding by the index of the first-level alternative
        let mut stack: Vec<Vec<usize>> = vec![Vec::new()];
        let mut first = true;
        let mut outcomes: HashSet<u64> = HashSet::new();
        let mut first_sig: Option<(Vec<usize>, u64)> = None;
        let mut last: Option<Vec<usize>> = None;
        while let Some(prefix) = stack.pop() {
            if ctx.out_of_time() {
                let st = ctx.stats(&name);
                st.cap_hit = true;
                st.bound = format!("{} — TIME CAP HIT with {} prefixes still unexplored", st.bound, stack.len() + 1);
                break;
            }
            ctx.journal(&name, &|| json!({"choices": prefix}));
            let mut r = run_one(&self.0, &prefix);
            // an execution that ran out of its wall limit although no thread was found blocked (all runnable: a loaded
            // machine can starve a shard for that long) is the same deterministic schedule when run again: retry it
            // twice before giving up; the error is reported only if it persists
            let mut retries = 0;
            while retries < 2 && r.failure.is_none() && r.machinery.as_deref().map(|m| m.starts_with("execution wedged (") && m.contains("any_wedged false")).unwrap_or(false) {
                retries += 1;
                std::thread::sleep(Duration::from_millis(500));
                r = run_one(&self.0, &prefix);
            }
            if let Some(m) = &r.machinery {
                ctx.machinery_error(format!("{name}: {m} (choices {:?})", prefix));
                if m.contains("wedged") {
                    break;
                }
                continue;
            }
            if std::env::var("ZV_DEBUG").is_ok() && r.trace.len() > 200 {
                eprintln!("LONG execution: {} decisions, prefix {:?}, stuck={}", r.trace.len(), prefix, r.stuck);
            }
            let root = first;
            first = false;
            // children
            let mut children: Vec<Vec<usize>> = Vec::new();
            for i in prefix.len()..r.trace.len() {
                let d = &r.trace[i];
                let mut cost = r.preemptions_before(i);
                if d.running_enabled {
                    cost += 1;
                }
                if cost > bound {
                    continue;
                }
                let mut ycost = r.yield_deviations_before(i);
                if d.after_yield {
                    ycost += 1;
                }
                if ycost > bound.max(1) {
                    continue;
                }
                for alt in 1..d.enabled.len() {
                    let mut p: Vec<usize> = r.trace[..i].iter().map(|x| x.chosen).collect();
                    p.push(alt);
                    children.push(p);
                }
            }
            if root {
                // shard the first-level children; the root execution itself is counted by the owner of unit 0
                let owns_root = ctx.take_unit();
                for c in children {
                    if ctx.take_unit() {
                        stack.push(c);
                    }
                }
                if !owns_root {
                    continue;
                }
            } else {
                stack.extend(children);
            }
            let st = ctx.stats(&name);
            st.executions += 1;
            st.transitions += r.trace.len() as u64;
            for h in &r.state_hashes {
                ctx.add_state(&name, *h);
            }
            let sig = trace_sig(&r);
            outcomes.insert(h64(&(r.events.iter().map(|e| (e.tid, e.site)).collect::<Vec<_>>())));
            if first_sig.is_none() {
                first_sig = Some((prefix.clone(), sig));
            }
            last = Some(prefix.clone());
            let choices = r.choices();
            match &r.failure {
                None => {
                    *ctx.stats(&name).outcomes.entry(if r.stuck { "stuck_ok".into() } else { "ok".into() }).or_insert(0) += 1;
                    ctx.add_sample(&name, &|| json!({"choices": choices, "decisions": r.trace.len(), "events": r.events.len()}));
                }
                Some(f) => {
                    let f = with_preemption_class(f, &r);
                    *ctx.stats(&name).outcomes.entry(format!("fail:{}:{}", f.clause, f.class)).or_insert(0) += 1;
                    ctx.violation(&name, &f, json!({"choices": choices}));
                    if f.class.starts_with("blocked_in_library") {
                        // an OS thread of that execution is stuck inside the library for good; every further schedule that
                        // reaches the same state costs seconds and leaks another thread: one witness is enough
                        let st = ctx.stats(&name);
                        st.cap_hit = true;
                        st.bound = format!("{} — exploration of this subject stopped at the first schedule that blocks a thread inside the library for good", st.bound);
                        break;
                    }
                }
            }
        }
        *ctx.stats(&name).extra.entry("distinct_event_orders".into()).or_insert(0) += outcomes.len() as u64;
        // owning the nondeterminism: first and last explored schedule are executed again and must give the same trace
        for p in [first_sig.as_ref().map(|x| x.0.clone()), last].into_iter().flatten() {
            let a = run_one(&self.0, &p);
            let b = run_one(&self.0, &p);
            if a.machinery.is_none() && b.machinery.is_none() && trace_sig(&a) != trace_sig(&b) {
                if std::env::var("ZV_DEBUG").is_ok() {
                    eprintln!("A: {:?}\n   {:?}", a.events.iter().map(|e| (e.tid, e.site)).collect::<Vec<_>>(), a.trace.iter().map(|d| d.enabled.clone()).collect::<Vec<_>>());
                    eprintln!("B: {:?}\n   {:?}", b.events.iter().map(|e| (e.tid, e.site)).collect::<Vec<_>>(), b.trace.iter().map(|d| d.enabled.clone()).collect::<Vec<_>>());
                }
                ctx.machinery_error(format!("{name}: schedule {:?} is not deterministic (two runs gave different event traces)", p));
            }
            *ctx.stats(&name).extra.entry("determinism_replays".into()).or_insert(0) += 2;
        }
    }

    fn replay(&self, _ctx: &mut Ctx, witness: &Value) -> Verdict {
        let Some(ch) = witness.get("choices").and_then(|c| c.as_array()) else {
            return Verdict::Unreplayable("witness has no choices".into());
        };
        let prefix: Vec<usize> = ch.iter().map(|x| x.as_u64().unwrap_or(0) as usize).collect();
        let r = run_one(&self.0, &prefix);
        if std::env::var("ZV_DEBUG").is_ok() {
            eprintln!("events: {:?}", r.events.iter().map(|e| (e.tid, e.site, e.a, e.b)).collect::<Vec<_>>());
            eprintln!("decisions: {:?}", r.trace.iter().map(|d| (d.enabled.clone(), d.chosen)).collect::<Vec<_>>());
            eprintln!("stuck={} failure={:?}", r.stuck, r.failure);
        }
        if let Some(m) = &r.machinery {
            return Verdict::Unreplayable(m.clone());
        }
        match &r.failure {
            Some(f) => Verdict::Fail(with_preemption_class(f, &r)),
            None => Verdict::Pass,
        }
    }
}

/// true iff the OS thread with kernel id `tid` sleeps in the kernel (state S or D in /proc): blocked, not starved or computing
fn os_thread_sleeping(tid: i64) -> bool {
    if tid <= 0 {
        return false;
    }
    match std::fs::read_to_string(format!("/proc/self/task/{tid}/stat")) {
        Ok(st) => match st.rfind(')') {
            Some(i) => matches!(st[i + 1..].trim_start().chars().next(), Some('S') | Some('D')),
            None => false,
        },
        Err(_) => false,
    }
}

/// Outcome class of a schedule violation: the oracle's class plus whether the failing schedule needs a
/// pre-emption at all (`p0` = fails on a schedule without pre-emptions, `p+` = needs at least one).
fn with_preemption_class(f: &Fail, r: &ExecResult) -> Fail {
    let p = r.preemptions_before(r.trace.len());
    let mut f = f.clone();
    f.class = format!("{}|{}", f.class, if p == 0 { "p0" } else { "p+" });
    f
}
