//! zverif — bounded-exhaustive exploration engines for the zipora properties.
//!
//! Every engine executes the *real* zipora code; the oracles are boring
//! reference models written here.  See /verif/DESIGN.md.

pub mod alloc;
pub mod core;
pub mod crash;
pub mod enumr;
pub mod model;
pub mod mutate;
pub mod sched;
pub mod seq;
pub mod stress;
pub mod util;

pub use crate::core::{main_with, Ctx, Fail, Outcome, Registry, Subject, Tier, Verdict};
pub use serde_json::{json, Value};
