"""Per-property configuration of the driver: one JSON file per property in props.d/ (bin, evidence level,
enumeration rule, caps, MANIFEST texts)."""
import glob
import json
import os

E1_RULE = ("E1: breadth-first enumeration of ALL mutator sequences up to the stated depth over the stated alphabet; every node = one "
           "execution of the real code from a fresh object, with every observer compared against the reference model after the last "
           "step; states = distinct (subject, model state) hashes reached, transitions = mutator applications, "
           "traces_validated_against_impl = executions (every explored history is an execution of the implementation)")
E2_RULE = ("E2: complete enumeration of the stated finite input space (small scope S ∪ threshold grid G) x every listed "
           "variant/configuration; a case is non-trivial iff the subject accepted it and was exercised past its first early return "
           "(encode/build succeeded on a non-empty input); distinct = distinct (subject, case) hashes among non-trivial cases")
RULES = {"E1": E1_RULE, "E2": E2_RULE}

PROPS = {}
_here = os.path.dirname(os.path.abspath(__file__))
for _f in sorted(glob.glob(os.path.join(_here, "props.d", "C*.json"))):
    with open(_f) as _fh:
        _c = json.load(_fh)
    _c["rule"] = " || ".join(RULES.get(r, r) for r in _c.get("rules", [])) + (" || " + _c["rule_extra"] if _c.get("rule_extra") else "")
    PROPS[_c["id"]] = _c
