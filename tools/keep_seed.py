#!/usr/bin/env python3
"""keep_seed.py <seed-id> <property> <src-dir> "<caught_by text>" [strengthened note]
Copies patch.diff / demo.rs / meta.json / confirm.json from <src-dir> into /verif/seeded/<seed-id>/ and extends meta.json with
what was confirmed and which check catches it (taken from /tmp/seedrun_<property>.out/.err of the last tools/run_seed.sh run)."""
import json, os, re, shutil, sys
sid, prop, src, caught = sys.argv[1:5]
note = sys.argv[5] if len(sys.argv) > 5 else ""
dst = os.path.join("/verif/seeded", sid)
os.makedirs(dst, exist_ok=True)
for f in ("patch.diff", "demo.rs", "meta.json", "confirm.json"):
    p = os.path.join(src, f)
    if os.path.exists(p) and os.path.abspath(p) != os.path.abspath(os.path.join(dst, f)):
        shutil.copy(p, os.path.join(dst, f))
mp = os.path.join(dst, "meta.json")
try:
    m = json.load(open(mp))
except Exception:
    m = {}
m["id"] = sid
m["property"] = prop
cf = os.path.join(dst, "confirm.json")
if os.path.exists(cf):
    m["confirmed_by_main_session"] = json.load(open(cf))
viol = []
out = "/tmp/seedrun_%s.out" % prop
err = "/tmp/seedrun_%s.err" % prop
if os.path.exists(err):
    txt = open(err).read()
    for mm in re.finditer(r"  subject=(.*?) clause=(\S+) class=(.*?) count=(\d+)\n  witness=(.*)\n  (.*)\n", txt):
        viol.append({"subject": mm.group(1), "clause": mm.group(2), "class": mm.group(3), "count": int(mm.group(4)), "witness": mm.group(5)[:300], "detail": mm.group(6)[:300]})
import subprocess
m["zipora_commit"] = subprocess.run(["git", "-C", "/repo", "rev-parse", "--short", "HEAD"], capture_output=True, text=True).stdout.strip()
m["check_run"] = {
    "command": "tools/run_seed.sh %s seeded/%s/patch.diff quick   (git apply to the zipora tree, ./check %s --tier quick, git checkout -- .)" % (prop, sid, prop),
    "exit_code": 1 if viol else 0,
    "violation_lines": len([l for l in open(out)] if os.path.exists(out) else []),
    "first_violations": viol[:4],
}
if caught == "auto":
    if viol:
        subs = []
        for v in viol:
            t = "%s — clause %s%s" % (v["subject"], v["clause"], (" (" + v["class"] + ")") if v["class"] else "")
            if t not in subs:
                subs.append(t)
        caught = "%s quick: " % prop + "; ".join(subs[:3]) + (" …" if len(subs) > 3 else "")
    else:
        caught = "NOT CAUGHT by %s quick" % prop
m["caught_by"] = caught
if note:
    m["strengthening"] = note
elif caught.startswith("NOT CAUGHT") is False and m.get("strengthening") is None:
    pass
json.dump(m, open(mp, "w"), indent=1)
print("kept", sid, "violations:", len(viol))
