#!/usr/bin/env python3
"""record_own.py <seed-id> <property> <patch.diff> "<summary>" "<needs_to_manifest>" ["<strengthening>"]
Records an own mutation (main session, no sub-agent, no demo): runs the property's quick check against it on the scratch
worktree (SEED_REPO, default /tmp/zr) and stores patch + meta in /verif/seeded/<seed-id>/."""
import json, os, shutil, subprocess, sys
sid, prop, patch, summary, needs = sys.argv[1:6]
note = sys.argv[6] if len(sys.argv) > 6 else ""
dst = "/verif/seeded/" + sid
os.makedirs(dst, exist_ok=True)
if os.path.abspath(patch) != os.path.abspath(dst + "/patch.diff"):
    shutil.copy(patch, dst + "/patch.diff")
files = [l[6:].strip() for l in open(dst + "/patch.diff") if l.startswith("+++ b/")]
json.dump({"id": sid, "property": prop, "author": "main session (own mutation, not from a sub-agent; no separate demonstration test, the baseline suite was not re-run for it)",
           "summary": summary, "files": files, "needs_to_manifest": needs}, open(dst + "/meta.json", "w"), indent=1)
env = dict(os.environ); env.setdefault("SEED_REPO", "/tmp/zr")
r = subprocess.run(["/verif/tools/run_seed.sh", prop, dst + "/patch.diff", "quick"], env=env, stdout=subprocess.PIPE, text=True)
print(r.stdout[:600])
subprocess.run(["python3", "/verif/tools/keep_seed.py", sid, prop, dst, "auto", note])
