#!/usr/bin/env python3
"""entrypoint_audit.py [CNN ...] — author's aid, not a check: lists, per property, the `pub fn`s of the anchored zipora files
whose name occurs nowhere in that property's harness sources (harness/src/bin/cNN*).  Decides nothing."""
import re, os, glob, json, sys
props = {l['id']: l for l in map(json.loads, open('/verif/properties.jsonl'))}
SKIP = re.compile(r'(stats|.*_stats|memory_usage|capacity|config|is_.*|with_.*|new.*|default|.*_count|len|name|size.*|clear_stats|record_.*)$')
def harness_text(pid):
    n = pid.lower()
    return ''.join(open(f).read() for f in glob.glob(f'/verif/harness/src/bin/{n}.rs') + glob.glob(f'/verif/harness/src/bin/{n}/*.rs'))
for pid in (sys.argv[1:] or sorted(props)):
    ht = harness_text(pid)
    print(pid)
    for f in props[pid]['anchors']['files']:
        p = '/repo/' + f
        if not os.path.isfile(p):
            continue
        src = open(p).read()
        i = src.find('#[cfg(test)]\nmod')
        if i > 0:
            src = src[:i]
        miss = sorted({m.group(1) for m in re.finditer(r'\n    pub fn (\w+)', src) if not re.search(r'\b' + m.group(1) + r'\b', ht)})
        miss = [x for x in miss if not SKIP.match(x)]
        if miss:
            print('   ', f.replace('src/', ''), miss)
