#!/bin/bash
# confirm_seed.sh CNN [name]  — confirms a seeded change produced in /tmp/mut/<name> (default CNN) with output in /tmp/mut-out/<name>:
#   1. patch.diff applies to /repo HEAD (checked in the agent's worktree, which is at that commit)
#   2. the repository's own suite still passes with the patch (tools/baseline.py on the worktree)
#   3. the demonstration fails with the patch and passes without it
# Writes /tmp/mut-out/<name>/confirm.json
P="$1"; N="${2:-$1}"
WT=/tmp/mut/$N; OUT=/tmp/mut-out/$N
low=$(echo "$P" | tr 'A-Z' 'a-z')
cd "$WT" || exit 2
export CARGO_NET_OFFLINE=true
unset RUSTFLAGS
res() { python3 - "$@" <<'EOF'
import json,sys
out=sys.argv[1]; kv=dict(a.split('=',1) for a in sys.argv[2:])
try: d=json.load(open(out+'/confirm.json'))
except Exception: d={}
d.update(kv); json.dump(d,open(out+'/confirm.json','w'),indent=1)
EOF
}
rm -f $OUT/confirm.json
# normalise the worktree: source = HEAD + patch.diff, demo file present
demo=$(ls tests/seeded_${low}*_demo*.rs 2>/dev/null | head -1)
[ -z "$demo" ] && demo=tests/seeded_${low}_demo.rs
cp "$OUT/demo.rs" /tmp/demo_$N.rs 2>/dev/null
git checkout -q -- . ; git clean -fdq -e target
# confirm against the CURRENT main of /repo (the worktree may have been created from an older commit)
git checkout -q --detach main
if ! git apply --check "$OUT/patch.diff" 2>/tmp/apply_$N.err; then res $OUT applies=false; echo "$N: patch does not apply"; exit 1; fi
res $OUT applies=true "zipora_commit=$(git rev-parse --short HEAD)"
cp /tmp/demo_$N.rs "$demo"
tname=$(basename "$demo" .rs)
# demo WITHOUT the patch must pass
timeout 1500 cargo test --offline --test "$tname" > /tmp/demo_${N}_clean.log 2>&1; rc_clean=$?
git apply "$OUT/patch.diff"
timeout 1500 cargo test --offline --test "$tname" > /tmp/demo_${N}_patched.log 2>&1; rc_patched=$?
res $OUT demo_rc_without_patch=$rc_clean demo_rc_with_patch=$rc_patched
# the repository's own suite with the patch (the demo file is an extra test binary: move it away first)
mv "$demo" /tmp/demo_$N.keep.rs
timeout 3000 python3 /verif/tools/baseline.py "$WT" > /tmp/baseline_$N.log 2>&1; rc_base=$?
cp /tmp/demo_$N.keep.rs "$demo"
res $OUT baseline_rc=$rc_base "baseline_summary=$(grep passed= /tmp/baseline_$N.log | tail -1)"
echo "$N: applies=true demo clean rc=$rc_clean patched rc=$rc_patched baseline rc=$rc_base"
# free the build output of this worktree (several GB); the sources, patch and demo stay
rm -rf "$WT/target"
