#!/bin/bash
# rerun_seeds.sh [seed-id ...] — re-runs every recorded seed (default: all of /verif/seeded) against /repo's current HEAD:
# applies seeded/<id>/patch.diff to /repo, runs the property's quick check, undoes the change, refreshes meta.json
# (zipora_commit, check_run, caught_by).  A patch that no longer applies is reported as STALE and left untouched.
cd /verif
ids="$@"; [ -z "$ids" ] && ids=$(ls seeded)
for id in $ids; do
  prop=$(python3 -c "import json;print(json.load(open('seeded/$id/meta.json'))['property'])")
  if ! git -C ${SEED_REPO:-/repo} apply --check /verif/seeded/$id/patch.diff 2>/dev/null; then echo "$id: STALE (patch does not apply to $(git -C /repo rev-parse --short HEAD))"; continue; fi
  note=$(python3 -c "import json;print(json.load(open('seeded/$id/meta.json')).get('strengthening',''))")
  tools/run_seed.sh "$prop" "/verif/seeded/$id/patch.diff" quick > /tmp/record_$id.log 2>&1
  python3 tools/keep_seed.py "$id" "$prop" "/verif/seeded/$id" auto "$note" | tr '\n' ' '; head -1 /tmp/record_$id.log
done
