#!/usr/bin/env python3
"""Regenerates the generated parts of DESIGN.md (between <!-- BEGIN:x --> / <!-- END:x --> markers):
 findings  : table of recorded known findings + list of fixed defects (from known_findings.jsonl)
 seeds     : which checks catch which seeded changes (from seeded/*/meta.json)"""
import json, os, glob, re

ROOT = "/verif"
kf = [json.loads(l) for l in open(os.path.join(ROOT, "known_findings.jsonl")) if l.strip()]
findings = [k for k in kf if k.get("kind") == "finding"]
fixed = [k for k in kf if k.get("kind") == "fixed"]

def esc(s):
    return str(s).replace("|", "\\|").replace("\n", " ")

out = []
out.append("%d recorded findings (defects of the current tree that are not repaired), %d repaired defects (`fix:` commits in /repo).\n" % (len(findings), len(fixed)))
out.append("**Recorded findings** (`kind: finding` lines of `known_findings.jsonl`; the check prints each as `KNOWN-FINDING` while its witness still fails):\n")
out.append("| property | subject | clause / class | what fails and why it is not repaired |")
out.append("|---|---|---|---|")
for k in sorted(findings, key=lambda k: (k["property"], k["subject"], k["clause"])):
    cc = k["clause"] + (" / " + k["class"] if k.get("class") else "")
    out.append("| %s | %s | %s | %s |" % (k["property"], esc(k["subject"]), esc(cc), esc(k.get("note", ""))[:420]))
out.append("")
out.append("**Repaired defects** (`kind: fixed`; they suppress nothing — the checks pass on the repaired tree without a KNOWN-FINDING line and report the violation again if it returns):\n")
byp = {}
for k in fixed:
    byp.setdefault(k["property"], []).append(k)
for p in sorted(byp):
    out.append("* **%s** — " % p + "; ".join("`%s` %s" % (k["commit"], esc(k["what"])) for k in byp[p]))
findings_md = "\n".join(out)

seeds = []
for mf in sorted(glob.glob(os.path.join(ROOT, "seeded", "*", "meta.json"))):
    m = json.load(open(mf))
    seeds.append(m)
so = []
so.append("| seed | property | change | needs to manifest | caught by (quick tier) |")
so.append("|---|---|---|---|---|")
for m in seeds:
    so.append("| %s | %s | %s | %s | %s |" % (m.get("id", ""), m.get("property", ""), esc(m.get("summary", ""))[:260], esc(m.get("needs_to_manifest", ""))[:220], esc(m.get("caught_by", ""))[:320]))
seeds_md = "\n".join(so)

# as-built table from the committed quick evidence
ab = []
ab.append("| id | engine(s) | level | subjects | quick: executions / states or distinct cases / wall | open findings | repaired | seeds caught |")
ab.append("|---|---|---|---|---|---|---|---|")
import glob as _g
for pf in sorted(_g.glob(os.path.join(ROOT, "props.d", "C*.json"))):
    c = json.load(open(pf)); pid = c["id"]
    evp = os.path.join(ROOT, "evidence", pid + ".json")
    ev = json.load(open(evp)) if os.path.exists(evp) else None
    cov = ev["coverage"] if ev else {}
    nf = len([k for k in findings if k["property"] == pid]); nx = len([k for k in fixed if k["property"] == pid])
    sd = [m for m in seeds if m.get("property") == pid]
    caught = len([m for m in sd if not str(m.get("caught_by", "")).startswith("NOT CAUGHT")])
    dn = cov.get("states") if ev and ev["level"] == "model_checking" else cov.get("distinct_nontrivial")
    ab.append("| %s | %s | %s | %s | %s / %s / %ss | %d | %d | %d of %d |" % (pid, c.get("engine", ""), c["level"], cov.get("subjects_covered", "?"), cov.get("evaluations", "?"), dn, ev["wall_s"] if ev else "?", nf, nx, caught, len(sd)))
asbuilt_md = "\n".join(ab)

path = os.path.join(ROOT, "DESIGN.md")
s = open(path).read()
for name, md in (("findings", findings_md), ("seeds", seeds_md), ("asbuilt", asbuilt_md)):
    b, e = "<!-- BEGIN:%s -->" % name, "<!-- END:%s -->" % name
    if b in s and e in s:
        s = s[: s.index(b) + len(b)] + "\n" + md + "\n" + s[s.index(e):]
open(path, "w").write(s)
print("DESIGN.md: %d findings, %d fixed, %d seeds" % (len(findings), len(fixed), len(seeds)))
