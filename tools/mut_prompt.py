#!/usr/bin/env python3
"""Prints the prompt for an independent mutation-seeding sub-agent for property CNN (only the property text + its worktree)."""
import json, sys
pid = sys.argv[1]
wt = sys.argv[2]
out = sys.argv[3]
extra = sys.argv[4] if len(sys.argv) > 4 else ""
for l in open('/verif/properties.jsonl'):
    p = json.loads(l)
    if p['id'] == pid:
        break
anch = p.get('anchors', {})
print(f"""You are a careful Rust engineer doing *mutation seeding* for a verification study of the Rust library infinilabs/zipora. You have your own scratch git worktree of the library at {wt} (a full checkout; build output goes to {wt}/target). Work ONLY inside {wt} and {out}; do not read or touch /repo or /verif or any other directory.

The library is supposed to satisfy this semantic property ({p['id']}: {p['title']}):

STATEMENT: {p['statement']}

QUANTIFIED OVER: {p['quantifier']['text']}

WHY THE EXISTING TESTS DO NOT SETTLE IT: {p['why_tests_cant']}

RELEVANT FILES: {', '.join(anch.get('files', []))}
MECHANISMS: {json.dumps(anch.get('mechanism', []))}

YOUR TASK: produce ONE realistic change to the library source (a small patch, typically 1-10 lines, in one or two places) that makes the library VIOLATE this property, while
 (a) the library still compiles (`cargo check --offline --lib` in {wt}),
 (b) the library's existing test suite still passes (it must not be a change ordinary use or the existing tests expose at once). You do not need to run the whole suite (it takes ~5 minutes of a 16-core machine that is shared with others): run the unit tests of the module(s) you touched, e.g. `cargo test --offline --lib <module_path>::` and any integration test file under tests/ that exercises the code you changed; say exactly what you ran,
 (c) the violation needs something SPECIFIC to manifest — a particular interleaving of two threads, a crash or fault at a particular point, a multi-step sequence of operations, an unusual input (a boundary length, a value at a table-width threshold, a key that collides), or two cooperating sites that each look fine alone — NOT something every use would hit immediately,
 (d) it looks like a plausible slip a developer could make (an off-by-one in a cursor, `<` for `<=`, a forgotten update of one field, a check moved after the action it guards, reading a stale value, a dropped `wrapping_`/mask, using the wrong one of two similar variables), not sabotage and not a change to comments, tests, build files or public signatures.
{extra}
Then write a DEMONSTRATION: a small Rust integration test file placed at {wt}/tests/seeded_{p['id'].lower()}_demo.rs (using only the library's public API and std; for concurrency properties you may use std::thread with explicit barriers/spin to force the interleaving as far as possible, or demonstrate the broken invariant sequentially if it can be reached sequentially) that FAILS with your change and PASSES on the unchanged library. Verify both: run it with your patch applied (must fail), then save your change with `git diff -- src > {out}/patch.diff` and revert it with `git apply -R {out}/patch.diff` (keep the demo file), run the demo again (must pass), then re-apply with `git apply {out}/patch.diff`. NEVER use `git stash`: the stash is shared with other people's worktrees of the same repository and entries get mixed up. The demo must be deterministic.

DELIVER in {out}/ (create the directory):
 - patch.diff : `git diff` of the library source change ONLY (not the demo test file), applying cleanly with `git apply` to the commit your worktree is at,
 - demo.rs    : a copy of your demonstration test file,
 - meta.json  : {{"property": "{p['id']}", "summary": "<one line: what was changed>", "files": [...], "needs_to_manifest": "<what specific input/sequence/interleaving/fault is needed>", "why_tests_pass": "<why the existing tests do not notice>", "ran": ["<commands you ran and their outcome>"]}}
Leave your worktree with the patch applied and the demo file in place. Do not commit. In your final message, summarise the change, what it needs to manifest, and the exact commands + results (demo fails with patch / passes without; which existing tests you ran).""")
