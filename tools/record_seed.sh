#!/bin/bash
# record_seed.sh <seed-id> <property> <src-dir> [patch-file-name] [note]
# runs the property's quick check against the seeded change on /repo itself and stores everything in /verif/seeded/<seed-id>/
sid="$1"; prop="$2"; src="$3"; pf="${4:-patch.diff}"; note="$5"
cd /verif
tools/run_seed.sh "$prop" "$src/$pf" quick > /tmp/record_$sid.log 2>&1
head -3 /tmp/record_$sid.log
if [ "$pf" != "patch.diff" ]; then cp "$src/patch.diff" "$src/patch.original.diff"; cp "$src/$pf" "$src/patch.diff"; fi
python3 tools/keep_seed.py "$sid" "$prop" "$src" auto "$note"
