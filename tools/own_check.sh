#!/bin/bash
# own_check.sh CNN [args...] — runs ./check against the scratch worktree /tmp/zr2 (own experiments, never /repo)
cd /verif
export ZV_HARNESS_DIR=/verif/tgt/own/h ZV_TARGET_DIR=/verif/tgt/own/target ZV_EVIDENCE_DIR=/dev/shm/zverif/own-evidence
mkdir -p $ZV_EVIDENCE_DIR
./check "$@"
