#!/usr/bin/env python3
"""Builds /verif/known_findings.jsonl from the per-property candidate files in known_findings.d/.

For every property it runs `./check CNN --tier quick` with ZV_KNOWN pointing at the candidate file (evidence goes to a
scratch directory), keeps the candidate lines whose witness still fails on the current /repo tree ("active"), drops the
others, and appends one `fixed` line per `fix:` commit of /repo (property taken from tools/fix_map.json).
The check itself never writes known_findings.jsonl; this tool is run by hand after triage."""
import json, os, subprocess, sys, glob

ROOT = "/verif"
props = sorted(os.path.basename(p)[:-5] for p in glob.glob(os.path.join(ROOT, "props.d", "C*.json")))
only = sys.argv[1:]
out_lines = []
scratch_ev = "/dev/shm/zverif/finalize-evidence"
os.makedirs(scratch_ev, exist_ok=True)
summary = []
for p in props:
    cand = os.path.join(ROOT, "known_findings.d", p + ".jsonl")
    lines = [json.loads(l) for l in open(cand) if l.strip() and not l.startswith("#")] if os.path.exists(cand) else []
    if only and p not in only:
        # keep what the current final file has for this property
        if os.path.exists(os.path.join(ROOT, "known_findings.jsonl")):
            for l in open(os.path.join(ROOT, "known_findings.jsonl")):
                if l.strip() and json.loads(l).get("property") == p and json.loads(l).get("kind") == "finding":
                    out_lines.append(json.loads(l))
        continue
    for i, l in enumerate(lines):
        l.setdefault("id", "%s#%d" % (p, i + 1))
    tmp = os.path.join(scratch_ev, p + ".cand.jsonl")
    with open(tmp, "w") as f:
        for l in lines:
            f.write(json.dumps(l) + "\n")
    env = dict(os.environ, ZV_KNOWN=tmp, ZV_EVIDENCE_DIR=scratch_ev)
    r = subprocess.run([os.path.join(ROOT, "check"), p, "--tier", "quick"], cwd=ROOT, env=env, stdout=subprocess.PIPE, stderr=subprocess.PIPE, text=True)
    ev = json.load(open(os.path.join(scratch_ev, p + ".json")))
    active = {k["id"] for k in ev["coverage"]["known_findings"] if k["active"]}
    kept = [l for l in lines if l["id"] in active]
    out_lines += kept
    viol = [x for x in r.stdout.splitlines() if x.startswith("VIOLATION")]
    summary.append("%s: rc=%d candidates=%d active=%d dropped=%d new_violations=%d" % (p, r.returncode, len(lines), len(kept), len(lines) - len(kept), len(viol)))
    print(summary[-1], flush=True)
    for v in viol[:5]:
        print("   ", v)

# fixed entries
fix_map = json.load(open(os.path.join(ROOT, "tools", "fix_map.json"))) if os.path.exists(os.path.join(ROOT, "tools", "fix_map.json")) else {}
log = subprocess.run(["git", "-C", "/repo", "log", "--reverse", "--format=%h\t%s"], stdout=subprocess.PIPE, text=True).stdout
fixed = []
for line in log.splitlines():
    h, s = line.split("\t", 1)
    if s.startswith("fix:"):
        prop = fix_map.get(s, "?")
        fixed.append({"kind": "fixed", "property": prop, "commit": h, "what": s[4:].strip(),
                      "entry": "fixed: property=%s %s %s" % (prop, h, s[4:].strip())})
with open(os.path.join(ROOT, "known_findings.jsonl"), "w") as f:
    for l in out_lines:
        f.write(json.dumps(l, sort_keys=True) + "\n")
    for l in fixed:
        f.write(json.dumps(l, sort_keys=True) + "\n")
print("known_findings.jsonl: %d findings, %d fixed entries" % (len(out_lines), len(fixed)))
