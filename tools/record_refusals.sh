#!/bin/bash
# record_refusals.sh [CNN ...] — records which refusals (operations answered with Err where the statement allows it) the
# UNCHANGED tree makes, in both tiers, and writes /verif/refusal_profile.json.  Run by hand on a clean /repo after triage,
# like finalize_findings.py; the checks never write this file.
cd /verif
props="$@"; [ -z "$props" ] && props="C03 C05 C06 C10"
export ZV_REFUSALS_RECORD=1 ZV_EVIDENCE_DIR=/dev/shm/zverif/refusal-evidence
mkdir -p $ZV_EVIDENCE_DIR
for p in $props; do
  for t in quick thorough; do
    ./check $p --tier $t > /dev/null 2> /dev/shm/refusals_$p_$t.err; echo "$p $t rc=$?"
  done
done
python3 - $props <<'PY'
import json,os,sys
prof = json.load(open('/verif/refusal_profile.json')) if os.path.exists('/verif/refusal_profile.json') else {}
for p in sys.argv[1:]:
    subj = {}
    for t in ('quick','thorough'):
        f='/dev/shm/zverif/refusal-evidence/%s.refusals.%s.json'%(p,t)
        if os.path.exists(f):
            for s,labels in json.load(open(f)).items():
                subj.setdefault(s,set()).update(labels.keys())
    prof[p] = {s: sorted(l) for s,l in sorted(subj.items())}
    print(p, 'subjects with refusals:', len(prof[p]), 'pairs:', sum(len(v) for v in prof[p].values()))
json.dump(prof, open('/verif/refusal_profile.json','w'), indent=1, sort_keys=True)
PY
