#!/usr/bin/env python3
"""Runs the repository's own test suite (guard OFF) and compares with /root/.vp/BASELINE.json.
usage: baseline.py [repo_dir]      exit 0 iff every stable-pass test of the baseline passes."""
import json, os, subprocess, sys, xml.etree.ElementTree as ET
repo = sys.argv[1] if len(sys.argv) > 1 else "/repo"
base = json.load(open("/root/.vp/BASELINE.json"))
env = dict(os.environ); env["CARGO_NET_OFFLINE"] = "true"; env.pop("RUSTFLAGS", None)
cmd = ["cargo", "nextest", "run", "--workspace", "--no-fail-fast", "--tool-config-file", "pb:/w/lib/nextest.toml", "--profile", "pb",
       "--test-threads", "8", "--offline"]
p = subprocess.run(cmd, cwd=repo, env=env, stdout=subprocess.PIPE, stderr=subprocess.STDOUT, text=True)
junit = None
for root, _d, files in os.walk(os.path.join(repo, "target", "nextest")):
    if "junit.xml" in files:
        junit = os.path.join(root, "junit.xml")
if junit is None:
    print(p.stdout[-3000:]); print("no junit.xml produced"); sys.exit(2)
passed, failed = set(), set()
for tc in ET.parse(junit).getroot().iter("testcase"):
    tid = (tc.get("classname") or "") + "::" + (tc.get("name") or "")
    if tc.find("failure") is not None or tc.find("error") is not None or tc.find("flakyFailure") is not None: failed.add(tid)
    elif tc.find("skipped") is None: passed.add(tid)
passed -= failed
missing = [t for t in base["stable_pass"] if t not in passed]
# timing-sensitive tests (e.g. *_performance) can fail on a loaded machine: each missing test is re-run alone, twice at most
if missing and len(missing) <= 5:
    still = []
    for t in missing:
        name = t.split("::", 1)[1] if "::" in t else t
        name = name.split("::")[-1]
        ok = False
        for _ in range(2):
            r = subprocess.run(["cargo", "nextest", "run", "--workspace", "--offline", "--test-threads", "1", name], cwd=repo, env=env,
                               stdout=subprocess.PIPE, stderr=subprocess.STDOUT, text=True)
            if r.returncode == 0:
                ok = True
                break
        print("  retried alone:", t, "->", "passed" if ok else "FAILED again")
        if ok:
            passed.add(t)
        else:
            still.append(t)
    missing = still
print("passed=%d failed=%d baseline_stable=%d missing_from_pass=%d" % (len(passed), len(failed), len(base["stable_pass"]), len(missing)))
for t in missing[:40]:
    print("  NOT PASSING:", t, "(failed)" if t in failed else "(absent)")
sys.exit(0 if not missing else 1)
