#!/bin/bash
# process_seed.sh <name> <property> — confirm a sub-agent's seed (demo fails with / passes without, repo suite passes with it),
# then run the property's quick check against it on the scratch tree and record it in /verif/seeded/<name>/
N="$1"; P="$2"
cd /verif
tools/confirm_seed.sh "$P" "$N" > /tmp/confirm_$N.log 2>&1
tail -1 /tmp/confirm_$N.log
python3 - "$N" <<'PY'
import json,sys
c=json.load(open('/tmp/mut-out/%s/confirm.json'%sys.argv[1]))
ok = c.get('applies')=='true' and c.get('demo_rc_without_patch')=='0' and c.get('demo_rc_with_patch') not in ('0',None) and c.get('baseline_rc')=='0'
print('CONFIRMED' if ok else 'NOT CONFIRMED', c)
sys.exit(0 if ok else 1)
PY
[ $? -eq 0 ] || exit 1
SEED_REPO=${SEED_REPO:-/tmp/zr} tools/record_seed.sh "$N" "$P" /tmp/mut-out/$N
grep -o '"caught_by": "[^"]*' seeded/$N/meta.json | cut -c1-300
