#!/bin/bash
# run_seed.sh CNN <patch.diff> [tier]  — applies a seeded change to /repo, runs the property's check, undoes the change.
# Evidence of these runs goes to a scratch directory (committed evidence must come from the unchanged tree).
P="$1"; PATCH="$2"; TIER="${3:-quick}"
cd /verif
R="${SEED_REPO:-/repo}"
# one seeded run at a time per tree
exec 9>/tmp/seedrepo.lock; flock 9
if [ "$R" != "/repo" ]; then export ZV_HARNESS_DIR=/verif/tgt/fix/h ZV_TARGET_DIR=/verif/tgt/fix/target; fi
if [ -n "$(git -C $R status --porcelain --untracked-files=no)" ]; then echo "$R is dirty"; exit 2; fi
git -C $R apply "$PATCH" || { echo "patch does not apply to $R"; exit 2; }
export ZV_EVIDENCE_DIR=/dev/shm/zverif/seed-evidence
mkdir -p $ZV_EVIDENCE_DIR
./check "$P" --tier "$TIER" > /tmp/seedrun_$P.out 2> /tmp/seedrun_$P.err; rc=$?
git -C $R checkout -- .
echo "check $P $TIER on seeded tree: exit $rc, $(grep -c '^VIOLATION' /tmp/seedrun_$P.out) VIOLATION lines"
grep '^VIOLATION' /tmp/seedrun_$P.out | head -5
grep -A3 '^  subject=' /tmp/seedrun_$P.err | head -16 | cut -c1-300
exit $rc
