#!/bin/bash
# usage: apply_fix.sh <worktree> <diff-file> "<commit message starting with fix:>"
set -e
wt="$1"; diff="$2"; msg="$3"
cd "$wt"
if ! git apply --check "$diff" 2>/tmp/apply_err.txt; then
  if ! git apply --3way "$diff" 2>>/tmp/apply_err.txt; then echo "CONFLICT applying $diff"; cat /tmp/apply_err.txt | tail -5; git checkout -- . ; exit 1; fi
else
  git apply "$diff"
fi
git add -A
git commit -q -m "$msg"
echo "applied $(basename $diff) -> $(git rev-parse --short HEAD)"
