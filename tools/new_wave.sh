#!/bin/bash
# new_wave.sh <name> <property> "<kind of trigger wanted>"  — creates the scratch worktree /tmp/mut/<name> and writes the sub-agent prompt to /tmp/prompts/<name>.txt
N="$1"; P="$2"; KIND="$3"
git -C /repo worktree add --detach /tmp/mut/$N main >/dev/null 2>&1 || { echo "worktree failed"; exit 1; }
mkdir -p /tmp/mut-out/$N
EXTRA=$(python3 - "$P" "$KIND" <<'PY'
import json,os,sys
p,kind=sys.argv[1],sys.argv[2]
prev=[]
for d in sorted(os.listdir('/verif/seeded')):
    try: m=json.load(open(f'/verif/seeded/{d}/meta.json'))
    except Exception: continue
    if m.get('property')==p: prev.append(m.get('summary','')[:160])
s=" (e) IMPORTANT - earlier rounds of this study already used the changes listed below. Yours must be in a DIFFERENT function/component than every one of them and use a different kind of trigger:\n"
for x in prev: s+="     - "+x+"\n"
s+=" (f) The kind of trigger wanted this time: "+kind+"\n"
s+=" (g) The machine is shared: always pass `-j 4` to cargo. Use `cargo test --offline -j 4 ...`.\n"
print(s)
PY
)
python3 /verif/tools/mut_prompt.py $P /tmp/mut/$N /tmp/mut-out/$N "$EXTRA" > /tmp/prompts/$N.txt
wc -c /tmp/prompts/$N.txt
